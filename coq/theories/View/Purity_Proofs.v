(* C07 — purity of the query-time state machine of View/Purity.v.
   Every output of [step] is the history-free answer [pure_answer] of View/View.v, whatever state the
   caches and the postings handles have reached.  The invariant [Inv] says that every cache entry is the
   value recomputed from the immutable postings of its object.
   Two facts about the immutable postings are premises of the answer theorems ([slice_idem_hyp],
   [phrase_local_hyp]); they are needed exactly where a view whose handle was reset by a later
   selection reads the UN-filtered base although the pure model reads the filtered postings. *)
From Coq Require Import ZArith.
From SA Require Import Base.Prelude Kernels.Spec Kernels.Linear Codec.Codec Index.Index Query.Phrase Query.Range
  Score.BM25 View.View View.Purity.
Open Scope N_scope.

(* ================= list / heap algebra ================= *)
Lemma set_nth_cons_S {A} (a : A) l i x : set_nth (a :: l) (S i) x = a :: set_nth l i x.
Proof. reflexivity. Qed.

Lemma set_nth_length {A} (l : list A) : forall i x, (i < length l)%nat -> length (set_nth l i x) = length l.
Proof.
  induction l as [|a l IH]; intros i x H; cbn [length] in H; [lia|].
  destruct i as [|i]; [reflexivity|]. rewrite set_nth_cons_S. cbn [length]. rewrite IH by lia. reflexivity.
Qed.

Lemma nth_set_nth {A} (l : list A) : forall i j x d, (i < length l)%nat ->
  nth j (set_nth l i x) d = if Nat.eqb i j then x else nth j l d.
Proof.
  induction l as [|a l IH]; intros i j x d H; cbn [length] in H; [lia|].
  destruct i as [|i].
  - destruct j; reflexivity.
  - rewrite set_nth_cons_S. destruct j as [|j]; [reflexivity|]. cbn [nth Nat.eqb]. apply IH. lia.
Qed.

Lemma heap_put_ps p i s : heap (put_ps p i s) = set_nth (heap p) i s.
Proof. reflexivity. Qed.
Lemma arrays_put_ps p i s : arrays (put_ps p i s) = arrays p.
Proof. reflexivity. Qed.
Lemma length_put_ps p i s : (i < length (heap p))%nat -> length (heap (put_ps p i s)) = length (heap p).
Proof. intro H. rewrite heap_put_ps. apply set_nth_length. exact H. Qed.
Lemma get_put_eq p i s : (i < length (heap p))%nat -> get_ps (put_ps p i s) i = s.
Proof. intro H. unfold get_ps. rewrite heap_put_ps, nth_set_nth by exact H. rewrite Nat.eqb_refl. reflexivity. Qed.
Lemma get_put_neq p i j s : (i < length (heap p))%nat -> i <> j -> get_ps (put_ps p i s) j = get_ps p j.
Proof.
  intros H Hn. unfold get_ps. rewrite heap_put_ps, nth_set_nth by exact H.
  destruct (Nat.eqb_spec i j); [contradiction|reflexivity].
Qed.

(* ================= the immutable part of a state, and cache soundness ================= *)
Definition same_imm (s s' : pstate) : Prop :=
  ps_base s' = ps_base s /\ ps_ids s' = ps_ids s /\ ps_max_doc_id s' = ps_max_doc_id s /\ ps_root s' = ps_root s.

Lemma same_imm_refl s : same_imm s s.
Proof. repeat split. Qed.
Lemma same_imm_trans s1 s2 s3 : same_imm s1 s2 -> same_imm s2 s3 -> same_imm s1 s3.
Proof. intros (a & b & c & d) (a' & b' & c' & d'). repeat split; congruence. Qed.

(* the handle the pure model gives to the arrays of this object *)
Definition handle_of (s : pstate) : handle :=
  match ps_ids s with Some ids => HFiltered (ps_base s) ids | None => HBase (ps_base s) end.
(* the handle the object currently reads through *)
Definition cur_handle (s : pstate) : handle := if ps_filtered_now s then handle_of s else HBase (ps_base s).

Definition sliced_ok (s : pstate) : Prop :=
  forall t w, lookup t (ps_sliced s) = Some w ->
    exists ids bw, ps_ids s = Some ids /\ lookup_posts t (ps_base s) = AOk bw /\ slice_keys bw ids = Done w.
Definition df_ok (s : pstate) : Prop :=
  forall t d, lookup t (ps_dfcache s) = Some d ->
    exists w ks, lookup_posts t (ps_base s) = AOk w /\ keys_unique w = Done ks /\ d = N.of_nat (length ks).
Definition tf_ok (s : pstate) : Prop :=
  forall t kc, lookup t (ps_tfcache s) = Some kc ->
    ps_ids s = None /\ exists w, lookup_posts t (ps_base s) = AOk w /\ num_values_per_key w = Done kc.
Definition cache_ok (s : pstate) : Prop := sliced_ok s /\ df_ok s /\ tf_ok s.

Lemma lookup_cons {A} t t' (v : A) l : lookup t ((t', v) :: l) = if t =? t' then Some v else lookup t l.
Proof. reflexivity. Qed.

Ltac inv_pair H := inversion H; subst; clear H.

(* ---- read_enc ---- *)
Lemma read_enc_spec s t e s' : cache_ok s -> read_enc s t = (e, s') ->
  same_imm s s' /\ ps_filtered_now s' = ps_filtered_now s /\ cache_ok s' /\ e = get_enc (cur_handle s) t.
Proof.
  intros Hc H. pose proof Hc as (Hsl & Hdf & Htf).
  destruct s as [base ids fnow sliced dfc tfc cgt maxd root].
  unfold read_enc, cur_handle, handle_of in *. unfold sliced_ok, df_ok, tf_ok in Hsl, Hdf, Htf.
  cbn [ps_base ps_ids ps_filtered_now ps_sliced ps_dfcache ps_tfcache ps_cache_gt ps_max_doc_id ps_root] in *.
  destruct fnow; [destruct ids as [ids|]|].
  - destruct (lookup t sliced) as [w|] eqn:El.
    + inv_pair H. split; [apply same_imm_refl|]. split; [reflexivity|]. split; [assumption|].
      destruct (Hsl t w El) as (ids' & bw & Hi & Hl & Hs). inv_pair Hi.
      cbn [get_enc]. rewrite Hl. cbn [abind]. rewrite Hs. reflexivity.
    + cbn [get_enc].
      destruct (lookup_posts t base) as [w| | |] eqn:Elp.
      * destruct (slice_keys w ids) as [sl| |] eqn:Es; inv_pair H;
          (split; [repeat split|]; split; [reflexivity|]; split; [|cbn [abind]; rewrite Es; reflexivity]);
          try assumption.
        split; [|split]; try assumption.
        unfold sliced_ok. cbn [ps_base ps_ids ps_sliced].
        intros t' w'. rewrite lookup_cons. destruct (N.eqb_spec t' t) as [->|Hne].
        -- intro Hw. inv_pair Hw. exists ids, w. repeat split; assumption.
        -- apply Hsl.
      * inv_pair H. split; [apply same_imm_refl|]. split; [reflexivity|]. split; [assumption|reflexivity].
      * inv_pair H. split; [apply same_imm_refl|]. split; [reflexivity|]. split; [assumption|reflexivity].
      * inv_pair H. split; [apply same_imm_refl|]. split; [reflexivity|]. split; [assumption|reflexivity].
  - inv_pair H. split; [apply same_imm_refl|]. split; [reflexivity|]. split; [assumption|reflexivity].
  - destruct ids; inv_pair H; (split; [apply same_imm_refl|]; split; [reflexivity|]; split; [assumption|reflexivity]).
Qed.

(* ---- df_on_root ---- *)
Definition df_answer (base : posts) (t : N) : api N :=
  ado w <- lookup_posts t base; ado ks <- lift (keys_unique w); AOk (N.of_nat (length ks)).

Lemma df_on_root_spec s t r s' : cache_ok s -> df_on_root s t = (r, s') ->
  same_imm s s' /\ ps_filtered_now s' = ps_filtered_now s /\ cache_ok s' /\ r = df_answer (ps_base s) t.
Proof.
  intros Hc H. pose proof Hc as (Hsl & Hdf & Htf).
  destruct s as [base ids fnow sliced dfc tfc cgt maxd root].
  unfold df_on_root, df_answer in *. unfold sliced_ok, df_ok, tf_ok in Hsl, Hdf, Htf.
  cbn [ps_base ps_ids ps_filtered_now ps_sliced ps_dfcache ps_tfcache ps_cache_gt ps_max_doc_id ps_root] in *.
  destruct (lookup t dfc) as [d|] eqn:El.
  - inv_pair H. split; [apply same_imm_refl|]. split; [reflexivity|]. split; [assumption|].
    destruct (Hdf t d El) as (w & ks & Hl & Hk & ->). rewrite Hl. cbn [abind]. rewrite Hk. reflexivity.
  - destruct (lookup_posts t base) as [w| | |] eqn:Elp.
    + destruct (keys_unique w) as [ks| |] eqn:Ek.
      * destruct (cgt <? N.of_nat (length w)); inv_pair H;
          (split; [repeat split|]; split; [reflexivity|]; split; [|cbn [abind]; rewrite Ek; reflexivity]); try assumption.
        split; [|split]; try assumption.
        unfold df_ok. cbn [ps_base ps_dfcache].
        intros t' d'. rewrite lookup_cons. destruct (N.eqb_spec t' t) as [->|Hne].
        -- intro Hw. inv_pair Hw. exists w, ks. repeat split; assumption.
        -- apply Hdf.
      * inv_pair H. split; [apply same_imm_refl|]. split; [reflexivity|]. split; [assumption|].
        cbn [abind]. rewrite Ek. reflexivity.
      * inv_pair H. split; [apply same_imm_refl|]. split; [reflexivity|]. split; [assumption|].
        cbn [abind]. rewrite Ek. reflexivity.
    + inv_pair H. split; [apply same_imm_refl|]. split; [reflexivity|]. split; [assumption|reflexivity].
    + inv_pair H. split; [apply same_imm_refl|]. split; [reflexivity|]. split; [assumption|reflexivity].
    + inv_pair H. split; [apply same_imm_refl|]. split; [reflexivity|]. split; [assumption|reflexivity].
Qed.

(* ---- tf_with_cache (only on objects that were never filtered) ---- *)
Definition tf_answer (base : posts) (t : N) : api (list (N * N)) :=
  ado w <- lookup_posts t base; lift (num_values_per_key w).

Lemma tf_with_cache_spec s t r s' : cache_ok s -> ps_ids s = None -> tf_with_cache s t = (r, s') ->
  same_imm s s' /\ ps_filtered_now s' = ps_filtered_now s /\ cache_ok s' /\ r = tf_answer (ps_base s) t.
Proof.
  intros Hc Hids H. unfold tf_with_cache in H.
  destruct (lookup t (ps_tfcache s)) as [kc|] eqn:El.
  - inv_pair H. split; [apply same_imm_refl|]. split; [reflexivity|]. split; [assumption|].
    destruct Hc as (_ & _ & Htf). destruct (Htf t kc El) as (_ & w & Hl & Hk).
    unfold tf_answer. rewrite Hl. cbn [abind]. rewrite Hk. reflexivity.
  - destruct (read_enc s t) as [enc s1] eqn:Er.
    destruct (read_enc_spec _ _ _ _ Hc Er) as (Him & Hf & Hc1 & He).
    assert (Hcur : get_enc (cur_handle s) t = lookup_posts t (ps_base s)).
    { unfold cur_handle, handle_of. rewrite Hids. destruct (ps_filtered_now s); reflexivity. }
    rewrite Hcur in He. unfold tf_answer. rewrite <- He.
    destruct enc as [w| | |].
    + destruct (num_values_per_key w) as [kc| |] eqn:Ek.
      * destruct (existsb (fun e => fst e =? t) (ps_dfcache s1)); inv_pair H.
        -- destruct Him as (Hb & Hi & Hm & Hr).
           destruct Hc1 as (Hsl & Hdf & Htf).
           split; [repeat split; assumption|]. split; [assumption|]. split; [|cbn [abind]; rewrite Ek; reflexivity].
           split; [exact Hsl|]. split; [exact Hdf|].
           unfold tf_ok. cbn [ps_base ps_ids ps_tfcache].
           intros t' kc'. rewrite lookup_cons. destruct (N.eqb_spec t' t) as [->|Hne].
           ++ intro Hw. inv_pair Hw. split; [congruence|]. exists w. rewrite Hb. split; [symmetry; exact He|exact Ek].
           ++ apply Htf.
        -- cbn [abind]. rewrite Ek. split; [assumption|]. split; [assumption|]. split; [assumption|reflexivity].
      * inv_pair H. cbn [abind]. rewrite Ek. split; [assumption|]. split; [assumption|]. split; [assumption|reflexivity].
      * inv_pair H. cbn [abind]. rewrite Ek. split; [assumption|]. split; [assumption|]. split; [assumption|reflexivity].
    + inv_pair H. split; [assumption|]. split; [assumption|]. split; [assumption|reflexivity].
    + inv_pair H. split; [assumption|]. split; [assumption|]. split; [assumption|reflexivity].
    + inv_pair H. split; [assumption|]. split; [assumption|]. split; [assumption|reflexivity].
Qed.

(* ---- read_all_enc ---- *)
Lemma cur_handle_same s s1 : same_imm s s1 -> ps_filtered_now s1 = ps_filtered_now s -> cur_handle s1 = cur_handle s.
Proof. intros (Hb & Hi & _) Hf. unfold cur_handle, handle_of. rewrite Hb, Hi, Hf. reflexivity. Qed.

Lemma read_all_enc_spec ts lo hi : forall s e s', cache_ok s -> read_all_enc s ts lo hi = (e, s') ->
  same_imm s s' /\ ps_filtered_now s' = ps_filtered_now s /\ cache_ok s' /\ e = get_all_enc (cur_handle s) ts lo hi.
Proof.
  induction ts as [|t rest IH]; intros s e s' Hc H; cbn [read_all_enc get_all_enc] in *.
  - inv_pair H. split; [apply same_imm_refl|]. split; [reflexivity|]. split; [assumption|reflexivity].
  - destruct (read_enc s t) as [enc s1] eqn:Er.
    destruct (read_enc_spec _ _ _ _ Hc Er) as (Him & Hf & Hc1 & He). rewrite <- He.
    pose proof (cur_handle_same _ _ Him Hf) as Hcur.
    destruct enc as [w| | |]; cbn [abind].
    + match goal with |- _ /\ _ /\ _ /\ _ = abind ?R _ => set (rng := R) in * end.
      clearbody rng. destruct rng as [w'| | |]; cbn [abind].
      * destruct (read_all_enc s1 rest lo hi) as [r s2] eqn:Er2.
        destruct (IH _ _ _ Hc1 Er2) as (Him2 & Hf2 & Hc2 & He2). inv_pair H.
        split; [eapply same_imm_trans; eassumption|]. split; [congruence|]. split; [assumption|].
        rewrite Hcur. reflexivity.
      * inv_pair H. split; [assumption|]. split; [assumption|]. split; [assumption|reflexivity].
      * inv_pair H. split; [assumption|]. split; [assumption|]. split; [assumption|reflexivity].
      * inv_pair H. split; [assumption|]. split; [assumption|]. split; [assumption|reflexivity].
    + inv_pair H. split; [assumption|]. split; [assumption|]. split; [assumption|reflexivity].
    + inv_pair H. split; [assumption|]. split; [assumption|]. split; [assumption|reflexivity].
    + inv_pair H. split; [assumption|]. split; [assumption|]. split; [assumption|reflexivity].
Qed.

(* ---- warm_terms ---- *)
Lemma warm_terms_spec ts : forall s, cache_ok s -> ps_ids s = None ->
  same_imm s (warm_terms s ts) /\ cache_ok (warm_terms s ts).
Proof.
  induction ts as [|[t w] rest IH]; intros s Hc Hi; cbn [warm_terms].
  - split; [apply same_imm_refl|assumption].
  - destruct (255 <? N.of_nat (length w)); [|apply IH; assumption].
    destruct (df_on_root s t) as [r1 s1] eqn:E1.
    destruct (df_on_root_spec _ _ _ _ Hc E1) as (Him1 & _ & Hc1 & _).
    assert (Hi1 : ps_ids s1 = None) by (destruct Him1 as (_ & -> & _); exact Hi).
    destruct (tf_with_cache s1 t) as [r2 s2] eqn:E2.
    destruct (tf_with_cache_spec _ _ _ _ Hc1 Hi1 E2) as (Him2 & _ & Hc2 & _).
    assert (Hi2 : ps_ids s2 = None) by (destruct Him2 as (_ & -> & _); exact Hi1).
    destruct (IH s2 Hc2 Hi2) as (Him3 & Hc3).
    split; [|exact Hc3]. eapply same_imm_trans; [|exact Him3]. eapply same_imm_trans; eassumption.
Qed.

(* the two handles differ only on a view whose filter was reset by a later selection *)
Lemma cur_handle_cases s :
  cur_handle s = handle_of s \/
  (ps_filtered_now s = false /\ exists ids, ps_ids s = Some ids /\ cur_handle s = HBase (ps_base s) /\
     handle_of s = HFiltered (ps_base s) ids).
Proof.
  unfold cur_handle, handle_of. destruct (ps_filtered_now s); [left; reflexivity|].
  destruct (ps_ids s) as [ids|]; [|left; reflexivity].
  right. split; [reflexivity|]. exists ids. repeat split.
Qed.

(* ================= the invariant ================= *)
Section WithGood.
(* well-formedness of (base postings, max_doc_id); threaded through the invariant, discharged by the caller *)
Variable good_posts : posts -> N -> Prop.

Definition root_ok (p : pool) (s : pstate) : Prop :=
  match ps_root s with
  | Some r => (r < length (heap p))%nat /\ ps_root (get_ps p r) = None
  | None => True
  end.
Definition state_ok (p : pool) (s : pstate) : Prop :=
  good_posts (ps_base s) (ps_max_doc_id s) /\ cache_ok s /\ root_ok p s.
Definition array_ok (p : pool) (a : parray) : Prop :=
  (pa_pid a < length (heap p))%nat /\
  p_handle (a_posns (pa_arr a)) = handle_of (get_ps p (pa_pid a)) /\
  p_max_doc_id (a_posns (pa_arr a)) = ps_max_doc_id (get_ps p (pa_pid a)) /\
  a_subset (pa_arr a) = (match ps_ids (get_ps p (pa_pid a)) with Some _ => true | None => false end) /\
  (forall ids, ps_ids (get_ps p (pa_pid a)) = Some ids -> ids = np_unique (a_rows (pa_arr a))) /\
  (root_of p (pa_pid a) < length (heap p))%nat /\
  p_df_root (a_posns (pa_arr a)) = ps_base (get_ps p (root_of p (pa_pid a))).
Definition Inv (p : pool) : Prop :=
  (forall i, (i < length (heap p))%nat -> state_ok p (get_ps p i)) /\
  (forall a, In a (arrays p) -> array_ok p a).

(* states are only ever added, and the immutable part of an existing state never changes *)
Definition heap_le (p p' : pool) : Prop :=
  (length (heap p) <= length (heap p'))%nat /\
  forall j, (j < length (heap p))%nat -> same_imm (get_ps p j) (get_ps p' j).

Lemma heap_le_refl p : heap_le p p.
Proof. split; [lia|]. intros. apply same_imm_refl. Qed.
Lemma heap_le_trans p1 p2 p3 : heap_le p1 p2 -> heap_le p2 p3 -> heap_le p1 p3.
Proof.
  intros (L1 & H1) (L2 & H2). split; [lia|]. intros j Hj.
  eapply same_imm_trans; [apply H1; exact Hj|apply H2; lia].
Qed.

Lemma root_ok_le p p' s : heap_le p p' -> root_ok p s -> root_ok p' s.
Proof.
  unfold root_ok. destruct (ps_root s) as [r|]; [|trivial].
  intros (Hl & Hs) (Hr & Hn). split; [lia|]. destruct (Hs r Hr) as (_ & _ & _ & ->). exact Hn.
Qed.
Lemma root_of_le p p' j : heap_le p p' -> (j < length (heap p))%nat -> root_of p' j = root_of p j.
Proof. intros (_ & Hs) Hj. unfold root_of. destruct (Hs j Hj) as (_ & _ & _ & ->). reflexivity. Qed.

Lemma array_ok_le p p' a : heap_le p p' -> array_ok p a -> array_ok p' a.
Proof.
  intros Hle (Hpid & Hh & Hm & Hsub & Hids & Hr & Hdf).
  pose proof (root_of_le _ _ _ Hle Hpid) as Hro.
  destruct Hle as (Hl & Hs).
  destruct (Hs _ Hpid) as (Hb & Hi & Hmx & _).
  destruct (Hs _ Hr) as (Hbr & _).
  unfold array_ok. rewrite Hro.
  split; [lia|]. split; [unfold handle_of in *; rewrite Hb, Hi; exact Hh|].
  split; [rewrite Hmx; exact Hm|]. split; [rewrite Hi; exact Hsub|].
  split; [intros ids; rewrite Hi; apply Hids|]. split; [lia|]. rewrite Hbr. exact Hdf.
Qed.

Lemma heap_le_put p i s' : (i < length (heap p))%nat -> same_imm (get_ps p i) s' -> heap_le p (put_ps p i s').
Proof.
  intros Hi Him. split; [rewrite length_put_ps by exact Hi; lia|].
  intros j Hj. destruct (Nat.eq_dec i j) as [<-|Hn].
  - rewrite get_put_eq by exact Hi. exact Him.
  - rewrite get_put_neq by assumption. apply same_imm_refl.
Qed.

(* the post-condition shared by every query: invariant kept, arrays untouched, states only refined *)
Definition upd (p p' : pool) : Prop := Inv p' /\ arrays p' = arrays p /\ heap_le p p'.

Lemma upd_refl p : Inv p -> upd p p.
Proof. intro H. split; [exact H|]. split; [reflexivity|apply heap_le_refl]. Qed.
Lemma upd_trans p1 p2 p3 : upd p1 p2 -> upd p2 p3 -> upd p1 p3.
Proof.
  intros (_ & A1 & L1) (I2 & A2 & L2). split; [exact I2|]. split; [congruence|eapply heap_le_trans; eassumption].
Qed.

Lemma upd_put p i s' : Inv p -> (i < length (heap p))%nat -> same_imm (get_ps p i) s' -> cache_ok s' ->
  upd p (put_ps p i s').
Proof.
  intros (Hst & Har) Hi Him Hc. pose proof (heap_le_put _ _ _ Hi Him) as Hle.
  split; [|split; [reflexivity|exact Hle]]. split.
  - intros j Hj. rewrite length_put_ps in Hj by exact Hi. destruct (Nat.eq_dec i j) as [<-|Hn].
    + rewrite get_put_eq by exact Hi. destruct (Hst i Hi) as (Hg & _ & Hr).
      split; [|split; [exact Hc|]].
      * destruct Him as (-> & _ & -> & _). exact Hg.
      * apply (root_ok_le _ _ _ Hle) in Hr. unfold root_ok in *.
        destruct Him as (_ & _ & _ & ->). exact Hr.
    + rewrite get_put_neq by assumption. destruct (Hst j Hj) as (Hg & Hc' & Hr).
      split; [exact Hg|]. split; [exact Hc'|]. eapply root_ok_le; eassumption.
  - intros a Ha. rewrite arrays_put_ps in Ha. eapply array_ok_le; [exact Hle|]. apply Har. exact Ha.
Qed.

Lemma root_is_root p i : Inv p -> (i < length (heap p))%nat -> ps_root (get_ps p (root_of p i)) = None.
Proof.
  intros (Hst & _) Hi. destruct (Hst i Hi) as (_ & _ & Hr). unfold root_ok, root_of in *.
  destruct (ps_root (get_ps p i)) as [r|] eqn:E; [apply Hr|exact E].
Qed.

(* ================= the two facts about immutable postings used by the answers ================= *)
(* H1: slicing well-formed postings by the same sorted distinct id set twice is slicing once *)
Definition slice_idem_hyp : Prop :=
  forall base maxd t w rows sl, good_posts base maxd -> lookup_posts t base = AOk w ->
    slice_keys w (np_unique rows) = Done sl -> slice_keys sl (np_unique rows) = Done sl.
(* H2: phrase counts of a document depend only on that document's postings: computing on the un-filtered
   postings and gathering the rows gives what computing on the postings filtered by np.unique(rows) gives *)
Definition phrase_local_hyp : Prop :=
  forall base maxd ts lo hi rows, good_posts base maxd -> (2 <= length ts)%nat ->
    (ado enc <- get_all_enc (HBase base) ts lo hi;
     ado pf <- compute_phrase_freqs enc;
     ado dense <- lift (store_many (repeat 0 (N.to_nat (maxd + 1))) pf);
     AOk (gather 0 dense rows))
    = (ado enc <- get_all_enc (HFiltered base (np_unique rows)) ts lo hi;
       ado pf <- compute_phrase_freqs enc;
       ado dense <- lift (store_many (repeat 0 (N.to_nat (maxd + 1))) pf);
       AOk (gather 0 dense rows)).

(* ================= every query: state update keeps Inv, output = pure answer ================= *)
Lemma m_docfreq_pure p a t r p' : Inv p -> In a (arrays p) -> m_docfreq p a t = (r, p') ->
  upd p p' /\ r = v_docfreq (pa_arr a) t.
Proof.
  intros HI Ha H. pose proof HI as (Hst & Har).
  destruct (Har a Ha) as (Hpid & Hh & Hm & Hsub & Hids & Hr & Hdf).
  unfold m_docfreq, v_docfreq in *.
  destruct (negb (known_a (pa_arr a) t)).
  - inv_pair H. split; [apply upd_refl; exact HI|reflexivity].
  - destruct (df_on_root (get_ps p (root_of p (pa_pid a))) t) as [out s'] eqn:E.
    destruct (Hst _ Hr) as (_ & Hc & _).
    destruct (df_on_root_spec _ _ _ _ Hc E) as (Him & _ & Hc' & ->). inv_pair H.
    split; [apply upd_put; assumption|]. rewrite Hdf. reflexivity.
Qed.

Lemma m_all_dfs_pure a ts : forall p r p', Inv p -> In a (arrays p) -> m_all_dfs p a ts = (r, p') ->
  upd p p' /\ r = v_all_dfs (pa_arr a) ts.
Proof.
  induction ts as [|t rest IH]; intros p r p' HI Ha H; cbn [m_all_dfs v_all_dfs] in *.
  - inv_pair H. split; [apply upd_refl; exact HI|reflexivity].
  - destruct (m_docfreq p a t) as [d p1] eqn:E1.
    destruct (m_docfreq_pure _ _ _ _ _ HI Ha E1) as (U1 & ->).
    destruct (m_all_dfs p1 a rest) as [ds p2] eqn:E2.
    assert (Ha1 : In a (arrays p1)) by (destruct U1 as (_ & -> & _); exact Ha).
    destruct (IH _ _ _ (proj1 U1) Ha1 E2) as (U2 & ->). inv_pair H.
    split; [eapply upd_trans; eassumption|reflexivity].
Qed.

Lemma m_termfreqs_pure p a t lo hi r p' : Inv p -> In a (arrays p) -> m_termfreqs p a t lo hi = (r, p') ->
  upd p p' /\ (slice_idem_hyp -> r = v_termfreqs (pa_arr a) t lo hi).
Proof.
  intros HI Ha H. pose proof HI as (Hst & Har).
  destruct (Har a Ha) as (Hpid & Hh & Hm & Hsub & Hids & Hr & Hdf).
  destruct (Hst _ Hpid) as (Hgood & Hc & _).
  unfold m_termfreqs, v_termfreqs in *.
  destruct (negb (known_a (pa_arr a) t)).
  { inv_pair H. split; [apply upd_refl; exact HI|reflexivity]. }
  destruct (a_subset (pa_arr a)) eqn:Esub.
  - destruct (read_enc (get_ps p (pa_pid a)) t) as [enc s1] eqn:Er.
    destruct (read_enc_spec _ _ _ _ Hc Er) as (Him & _ & Hc1 & ->). inv_pair H.
    split; [apply upd_put; assumption|]. intro Hidem. rewrite Hh, Hm.
    destruct (cur_handle_cases (get_ps p (pa_pid a))) as [->|(_ & ids & Hi & -> & ->)]; [reflexivity|].
    rewrite (Hids ids Hi). cbn [get_enc].
    destruct (lookup_posts t (ps_base (get_ps p (pa_pid a)))) as [w| | |] eqn:El; cbn [abind]; try reflexivity.
    destruct (slice_keys w (np_unique (a_rows (pa_arr a)))) as [sl| |] eqn:Es; cbn [lift abind]; try reflexivity.
    rewrite (Hidem _ _ _ _ _ _ Hgood El Es). reflexivity.
  - assert (Hnone : ps_ids (get_ps p (pa_pid a)) = None).
    { destruct (ps_ids (get_ps p (pa_pid a))); [discriminate|reflexivity]. }
    assert (Hcur : cur_handle (get_ps p (pa_pid a)) = handle_of (get_ps p (pa_pid a))).
    { unfold cur_handle, handle_of. rewrite Hnone. destruct (ps_filtered_now _); reflexivity. }
    assert (Hbase : handle_of (get_ps p (pa_pid a)) = HBase (ps_base (get_ps p (pa_pid a)))).
    { unfold handle_of. rewrite Hnone. reflexivity. }
    destruct lo as [lo|]; [|destruct hi as [hi|]].
    + destruct (read_enc (get_ps p (pa_pid a)) t) as [enc s1] eqn:Er.
      destruct (read_enc_spec _ _ _ _ Hc Er) as (Him & _ & Hc1 & ->). inv_pair H.
      split; [apply upd_put; assumption|]. intros _. rewrite Hh, Hcur. reflexivity.
    + destruct (read_enc (get_ps p (pa_pid a)) t) as [enc s1] eqn:Er.
      destruct (read_enc_spec _ _ _ _ Hc Er) as (Him & _ & Hc1 & ->). inv_pair H.
      split; [apply upd_put; assumption|]. intros _. rewrite Hh, Hcur. reflexivity.
    + destruct (tf_with_cache (get_ps p (pa_pid a)) t) as [kc s1] eqn:Et.
      destruct (tf_with_cache_spec _ _ _ _ Hc Hnone Et) as (Him & _ & Hc1 & ->). inv_pair H.
      split; [apply upd_put; assumption|]. intros _. rewrite Hh, Hbase. unfold tf_answer. cbn [get_enc].
      destruct (lookup_posts t (ps_base (get_ps p (pa_pid a)))); reflexivity.
Qed.

Lemma m_positions_pure p a t r p' : Inv p -> In a (arrays p) -> m_positions p a t = (r, p') ->
  upd p p' /\ (slice_idem_hyp -> r = v_positions (pa_arr a) t).
Proof.
  intros HI Ha H. pose proof HI as (Hst & Har).
  destruct (Har a Ha) as (Hpid & Hh & Hm & Hsub & Hids & Hr & Hdf).
  destruct (Hst _ Hpid) as (Hgood & Hc & _).
  unfold m_positions, v_positions in *.
  destruct (negb (known_a (pa_arr a) t)).
  { inv_pair H. split; [apply upd_refl; exact HI|reflexivity]. }
  destruct (read_enc (get_ps p (pa_pid a)) t) as [enc s1] eqn:Er.
  destruct (read_enc_spec _ _ _ _ Hc Er) as (Him & _ & Hc1 & ->). inv_pair H.
  split; [apply upd_put; assumption|]. intro Hidem. rewrite Hh.
  destruct (cur_handle_cases (get_ps p (pa_pid a))) as [->|(_ & ids & Hi & -> & ->)].
  { destruct (get_enc (handle_of (get_ps p (pa_pid a))) t) as [w|e| |]; try reflexivity.
    destruct e; reflexivity. }
  rewrite (Hids ids Hi). cbn [get_enc].
  destruct (lookup_posts t (ps_base (get_ps p (pa_pid a)))) as [w|e| |] eqn:El; cbn [abind].
  - destruct (slice_keys w (np_unique (a_rows (pa_arr a)))) as [sl| |] eqn:Es; cbn [lift abind]; try reflexivity.
    rewrite (Hidem _ _ _ _ _ _ Hgood El Es). reflexivity.
  - destruct e; reflexivity.
  - reflexivity.
  - reflexivity.
Qed.

Lemma m_phrase_pure p a ts lo hi r p' : Inv p -> In a (arrays p) -> m_phrase p a ts lo hi = (r, p') ->
  upd p p' /\ (phrase_local_hyp -> r = v_phrase_freqs (pa_arr a) ts lo hi).
Proof.
  intros HI Ha H. pose proof HI as (Hst & Har).
  destruct (Har a Ha) as (Hpid & Hh & Hm & Hsub & Hids & Hr & Hdf).
  destruct (Hst _ Hpid) as (Hgood & Hc & _).
  unfold m_phrase, v_phrase_freqs in *.
  destruct (negb (forallb (known_a (pa_arr a)) ts)).
  { inv_pair H. split; [apply upd_refl; exact HI|reflexivity]. }
  destruct (Nat.ltb (length ts) 2) eqn:Elen.
  { inv_pair H. split; [apply upd_refl; exact HI|reflexivity]. }
  destruct (read_all_enc (get_ps p (pa_pid a)) ts lo hi) as [encs s1] eqn:Er.
  destruct (read_all_enc_spec _ _ _ _ _ _ Hc Er) as (Him & _ & Hc1 & ->). inv_pair H.
  split; [apply upd_put; assumption|]. intro Hph. rewrite Hh, Hm.
  destruct (cur_handle_cases (get_ps p (pa_pid a))) as [->|(_ & ids & Hi & -> & ->)]; [reflexivity|].
  rewrite Hi in Hsub. rewrite Hsub. rewrite (Hids ids Hi). cbv beta iota.
  apply Hph; [exact Hgood|]. apply Nat.ltb_ge in Elen. exact Elen.
Qed.

Lemma m_score_pure p a ts idf k1 b r p' : Inv p -> In a (arrays p) -> m_score p a ts idf k1 b = (r, p') ->
  upd p p' /\ (slice_idem_hyp -> phrase_local_hyp -> r = v_score_bm25 (pa_arr a) ts idf k1 b).
Proof.
  intros HI Ha H. unfold m_score in H.
  destruct (m_all_dfs p a ts) as [dfs p1] eqn:E1.
  destruct (m_all_dfs_pure _ _ _ _ _ HI Ha E1) as (U1 & ->).
  assert (Ha1 : In a (arrays p1)) by (destruct U1 as (_ & -> & _); exact Ha).
  destruct (match ts with [t] => m_termfreqs p1 a t None None | _ => m_phrase p1 a ts None None end)
    as [tfs p2] eqn:E2.
  assert (U2 : upd p1 p2 /\ (slice_idem_hyp -> phrase_local_hyp -> tfs = v_tf_vector (pa_arr a) ts None None)).
  { unfold v_tf_vector. destruct ts as [|t [|t2 rest]].
    - destruct (m_phrase_pure _ _ _ _ _ _ _ (proj1 U1) Ha1 E2) as (U & A). split; [exact U|]. intros _; exact A.
    - destruct (m_termfreqs_pure _ _ _ _ _ _ _ (proj1 U1) Ha1 E2) as (U & A). split; [exact U|]. intros X _; exact (A X).
    - destruct (m_phrase_pure _ _ _ _ _ _ _ (proj1 U1) Ha1 E2) as (U & A). split; [exact U|]. intros _; exact A. }
  destruct U2 as (U2 & A). inv_pair H.
  split; [eapply upd_trans; eassumption|]. intros X Y. rewrite (A X Y).
  unfold v_score_bm25, v_score_args.
  destruct (v_all_dfs (pa_arr a) ts); cbn [abind]; try reflexivity.
  destruct (v_tf_vector (pa_arr a) ts None None); reflexivity.
Qed.

(* ================= selection, copy, warm ================= *)
Definition sel_parent (s : pstate) : pstate :=
  {| ps_base := ps_base s; ps_ids := ps_ids s; ps_filtered_now := false; ps_sliced := ps_sliced s;
     ps_dfcache := ps_dfcache s; ps_tfcache := ps_tfcache s; ps_cache_gt := ps_cache_gt s;
     ps_max_doc_id := ps_max_doc_id s; ps_root := ps_root s |}.
Definition sel_state (p : pool) (a : parray) (pos : list N) : pstate :=
  let s := get_ps p (pa_pid a) in
  {| ps_base := ps_base s; ps_ids := Some (np_unique (gather 0 (a_rows (pa_arr a)) pos)); ps_filtered_now := true;
     ps_sliced := []; ps_dfcache := []; ps_tfcache := []; ps_cache_gt := 25; ps_max_doc_id := ps_max_doc_id s;
     ps_root := Some (root_of p (pa_pid a)) |}.
Definition sel_arr (p : pool) (a : parray) (pos : list N) : sarray :=
  let arr := pa_arr a in let s := get_ps p (pa_pid a) in
  {| a_terms := a_terms arr;
     a_posns := {| p_handle := HFiltered (ps_base s) (np_unique (gather 0 (a_rows arr) pos));
                   p_max_doc_id := ps_max_doc_id s; p_df_root := p_df_root (a_posns arr) |};
     a_rows := gather 0 (a_rows arr) pos; a_subset := true; a_lens := gather 0 (a_lens arr) pos;
     a_total := a_total arr; a_n := a_n arr; a_avoid_copies := true |}.

Lemma m_select_eq p ai pos :
  m_select p ai pos =
  match nth_error (arrays p) ai with
  | None => (AExc IndexError, p)
  | Some a =>
      let p1 := put_ps p (pa_pid a) (sel_parent (get_ps p (pa_pid a))) in
      (AOk tt, {| heap := heap p1 ++ [sel_state p a pos];
                  arrays := arrays p1 ++ [{| pa_arr := sel_arr p a pos; pa_pid := length (heap p1) |}] |})
  end.
Proof. reflexivity. Qed.

Lemma get_ps_app_old p p' x : heap p' = heap p ++ [x] -> forall j, (j < length (heap p))%nat -> get_ps p' j = get_ps p j.
Proof. intros E j Hj. unfold get_ps. rewrite E. apply app_nth1. exact Hj. Qed.
Lemma get_ps_app_new p p' x : heap p' = heap p ++ [x] -> get_ps p' (length (heap p)) = x.
Proof. intros E. unfold get_ps. rewrite E. rewrite app_nth2 by lia. rewrite Nat.sub_diag. reflexivity. Qed.

(* adding a fresh object and an array on it *)
Lemma Inv_append p s_new a_new r :
  Inv p ->
  good_posts (ps_base s_new) (ps_max_doc_id s_new) -> cache_ok s_new ->
  ps_root s_new = Some r -> (r < length (heap p))%nat -> ps_root (get_ps p r) = None ->
  p_df_root (a_posns (pa_arr a_new)) = ps_base (get_ps p r) ->
  pa_pid a_new = length (heap p) ->
  p_handle (a_posns (pa_arr a_new)) = handle_of s_new ->
  p_max_doc_id (a_posns (pa_arr a_new)) = ps_max_doc_id s_new ->
  a_subset (pa_arr a_new) = (match ps_ids s_new with Some _ => true | None => false end) ->
  (forall ids, ps_ids s_new = Some ids -> ids = np_unique (a_rows (pa_arr a_new))) ->
  Inv {| heap := heap p ++ [s_new]; arrays := arrays p ++ [a_new] |} /\
  heap_le p {| heap := heap p ++ [s_new]; arrays := arrays p ++ [a_new] |}.
Proof.
  intros (Hst & Har) Hg Hc Hroot Hr Hrr Hdf Hpid Hh Hm Hsub Hids.
  set (p' := {| heap := heap p ++ [s_new]; arrays := arrays p ++ [a_new] |}).
  assert (E : heap p' = heap p ++ [s_new]) by reflexivity.
  assert (Hlen : length (heap p') = S (length (heap p))).
  { rewrite E, app_length. cbn [length]. lia. }
  assert (Hle : heap_le p p').
  { split; [lia|]. intros j Hj. rewrite (get_ps_app_old _ _ _ E j Hj). apply same_imm_refl. }
  split; [|exact Hle]. split.
  - intros i Hi. destruct (Nat.eq_dec i (length (heap p))) as [->|Hn].
    + rewrite (get_ps_app_new _ _ _ E). split; [exact Hg|]. split; [exact Hc|].
      unfold root_ok. rewrite Hroot. split; [lia|]. rewrite (get_ps_app_old _ _ _ E r Hr). exact Hrr.
    + assert (Hi' : (i < length (heap p))%nat) by lia.
      rewrite (get_ps_app_old _ _ _ E i Hi'). destruct (Hst i Hi') as (G & C & R).
      split; [exact G|]. split; [exact C|]. eapply root_ok_le; eassumption.
  - intros a Ha. change (arrays p') with (arrays p ++ [a_new]) in Ha. apply in_app_or in Ha.
    destruct Ha as [Ha|[<-|[]]].
    + eapply array_ok_le; [exact Hle|]. apply Har. exact Ha.
    + unfold array_ok. rewrite Hpid. rewrite (get_ps_app_new _ _ _ E).
      assert (Hro : root_of p' (length (heap p)) = r).
      { unfold root_of. rewrite (get_ps_app_new _ _ _ E), Hroot. reflexivity. }
      rewrite Hro. rewrite (get_ps_app_old _ _ _ E r Hr).
      split; [lia|]. split; [exact Hh|]. split; [exact Hm|]. split; [exact Hsub|]. split; [exact Hids|].
      split; [lia|exact Hdf].
Qed.

Lemma m_select_pure p ai pos r p' : Inv p -> m_select p ai pos = (r, p') ->
  Inv p' /\ (exists extra, arrays p' = arrays p ++ extra) /\ heap_le p p'.
Proof.
  intros HI H. rewrite m_select_eq in H.
  destruct (nth_error (arrays p) ai) as [a|] eqn:En.
  2:{ inv_pair H. split; [exact HI|]. split; [exists []; rewrite app_nil_r; reflexivity|apply heap_le_refl]. }
  cbv zeta in H. inv_pair H.
  pose proof (nth_error_In _ _ En) as Ha. pose proof HI as (Hst & Har).
  destruct (Har a Ha) as (Hpid & _).
  destruct (Hst _ Hpid) as (Hgood & Hc & _).
  set (p1 := put_ps p (pa_pid a) (sel_parent (get_ps p (pa_pid a)))).
  assert (U1 : upd p p1).
  { apply upd_put; [exact HI|exact Hpid|repeat split|exact Hc]. }
  destruct U1 as (I1 & A1 & L1).
  assert (Ha1 : In a (arrays p1)) by (rewrite A1; exact Ha).
  destruct (proj2 I1 a Ha1) as (Hpid1 & _ & _ & _ & _ & Hr1 & Hdf1).
  pose proof (root_is_root _ _ I1 Hpid1) as Hrr1.
  rewrite (root_of_le _ _ _ L1 Hpid) in Hr1, Hdf1, Hrr1.
  destruct (Inv_append p1 (sel_state p a pos) {| pa_arr := sel_arr p a pos; pa_pid := length (heap p1) |}
              (root_of p (pa_pid a)) I1) as (I2 & L2); try reflexivity; try assumption.
  - split; [|split]; intros t w Hl; discriminate Hl.
  - intros ids Hi. inv_pair Hi. reflexivity.
  - split; [exact I2|]. split; [|eapply heap_le_trans; eassumption].
    exists [{| pa_arr := sel_arr p a pos; pa_pid := length (heap p1) |}]. reflexivity.
Qed.

Lemma heap_le_eq p p' : heap p' = heap p -> heap_le p p'.
Proof. intro E. split; [rewrite E; lia|]. intros j _. unfold get_ps. rewrite E. apply same_imm_refl. Qed.

Lemma Inv_same_heap p p' : Inv p -> heap p' = heap p -> (forall x, In x (arrays p') -> In x (arrays p)) -> Inv p'.
Proof.
  intros (Hst & Har) E Hin. pose proof (heap_le_eq _ _ E) as Hle. split.
  - intros i Hi. rewrite E in Hi. replace (get_ps p' i) with (get_ps p i) by (unfold get_ps; rewrite E; reflexivity).
    destruct (Hst i Hi) as (G & C & R). split; [exact G|]. split; [exact C|]. eapply root_ok_le; eassumption.
  - intros a Ha. eapply array_ok_le; [exact Hle|]. apply Har, Hin, Ha.
Qed.

Lemma m_copy_pure p ai r p' : Inv p -> m_copy p ai = (r, p') ->
  Inv p' /\ (exists extra, arrays p' = arrays p ++ extra) /\ heap_le p p'.
Proof.
  intros HI H. unfold m_copy in H. destruct (nth_error (arrays p) ai) as [a|] eqn:En; inv_pair H.
  - split; [|split; [exists [a]; reflexivity|apply heap_le_eq; reflexivity]].
    apply (Inv_same_heap p); [exact HI|reflexivity|].
    intros x Hx. cbn [arrays] in Hx. apply in_app_or in Hx. destruct Hx as [Hx|[<-|[]]]; [exact Hx|].
    eapply nth_error_In; exact En.
  - split; [exact HI|]. split; [exists []; rewrite app_nil_r; reflexivity|apply heap_le_refl].
Qed.

Lemma m_warm_pure p ai r p' : Inv p -> m_warm p ai = (r, p') -> upd p p'.
Proof.
  intros HI H. unfold m_warm in H. destruct (nth_error (arrays p) ai) as [a|] eqn:En.
  2:{ inv_pair H. apply upd_refl; exact HI. }
  destruct (a_subset (pa_arr a)) eqn:Esub; inv_pair H; [apply upd_refl; exact HI|].
  pose proof HI as (Hst & Har).
  destruct (Har a (nth_error_In _ _ En)) as (Hpid & _ & _ & Hsub & _).
  destruct (Hst _ Hpid) as (_ & Hc & _).
  assert (Hnone : ps_ids (get_ps p (pa_pid a)) = None).
  { rewrite Esub in Hsub. destruct (ps_ids (get_ps p (pa_pid a))); [discriminate|reflexivity]. }
  destruct (warm_terms_spec (ps_base (get_ps p (pa_pid a))) _ Hc Hnone) as (Him & Hc').
  apply upd_put; assumption.
Qed.

(* ================= one step ================= *)
Lemma upd_out p p' : upd p p' -> Inv p' /\ (exists extra, arrays p' = arrays p ++ extra) /\ heap_le p p'.
Proof.
  intros (I & A & L). split; [exact I|]. split; [exists []; rewrite app_nil_r; exact A|exact L].
Qed.

Lemma step_full p o r p' : Inv p -> step p o = (r, p') ->
  Inv p' /\ (exists extra, arrays p' = arrays p ++ extra) /\ heap_le p p' /\
  (slice_idem_hyp -> phrase_local_hyp -> forall r0, pure_answer p o = Some r0 -> r = r0).
Proof.
  intros HI H.
  assert (Hmiss : forall q, Inv q /\ (exists extra, arrays q = arrays q ++ extra) /\ heap_le q q <-> Inv q).
  { intro q. split; [intros (X & _); exact X|]. intro X. split; [exact X|].
    split; [exists []; rewrite app_nil_r; reflexivity|apply heap_le_refl]. }
  destruct o as [ai t lo hi|ai ts lo hi|ai t|ai t|ai|ai ts idf k1 b|ai pos|ai|ai];
    unfold step, with_array, pure_answer in *; cbv beta iota zeta in *.
  - destruct (nth_error (arrays p) ai) as [a|] eqn:En; cbn [option_map].
    + destruct (m_termfreqs p a t lo hi) as [v p1] eqn:E. inv_pair H.
      destruct (m_termfreqs_pure _ _ _ _ _ _ _ HI (nth_error_In _ _ En) E) as (U & A).
      destruct (upd_out _ _ U) as (X & Y & Z). split; [exact X|]. split; [exact Y|]. split; [exact Z|].
      intros H1 H2 r0 Hr. inv_pair Hr. rewrite (A H1). reflexivity.
    + inv_pair H. destruct (proj2 (Hmiss p') HI) as (X & Y & Z).
      split; [exact X|]. split; [exact Y|]. split; [exact Z|]. intros _ _ r0 Hr. discriminate Hr.
  - destruct (nth_error (arrays p) ai) as [a|] eqn:En; cbn [option_map].
    + destruct (m_phrase p a ts lo hi) as [v p1] eqn:E. inv_pair H.
      destruct (m_phrase_pure _ _ _ _ _ _ _ HI (nth_error_In _ _ En) E) as (U & A).
      destruct (upd_out _ _ U) as (X & Y & Z). split; [exact X|]. split; [exact Y|]. split; [exact Z|].
      intros H1 H2 r0 Hr. inv_pair Hr. rewrite (A H2). reflexivity.
    + inv_pair H. destruct (proj2 (Hmiss p') HI) as (X & Y & Z).
      split; [exact X|]. split; [exact Y|]. split; [exact Z|]. intros _ _ r0 Hr. discriminate Hr.
  - destruct (nth_error (arrays p) ai) as [a|] eqn:En; cbn [option_map].
    + destruct (m_positions p a t) as [v p1] eqn:E. inv_pair H.
      destruct (m_positions_pure _ _ _ _ _ HI (nth_error_In _ _ En) E) as (U & A).
      destruct (upd_out _ _ U) as (X & Y & Z). split; [exact X|]. split; [exact Y|]. split; [exact Z|].
      intros H1 H2 r0 Hr. inv_pair Hr. rewrite (A H1). reflexivity.
    + inv_pair H. destruct (proj2 (Hmiss p') HI) as (X & Y & Z).
      split; [exact X|]. split; [exact Y|]. split; [exact Z|]. intros _ _ r0 Hr. discriminate Hr.
  - destruct (nth_error (arrays p) ai) as [a|] eqn:En; cbn [option_map].
    + destruct (m_docfreq p a t) as [v p1] eqn:E. inv_pair H.
      destruct (m_docfreq_pure _ _ _ _ _ HI (nth_error_In _ _ En) E) as (U & A).
      destruct (upd_out _ _ U) as (X & Y & Z). split; [exact X|]. split; [exact Y|]. split; [exact Z|].
      intros H1 H2 r0 Hr. inv_pair Hr. reflexivity.
    + inv_pair H. destruct (proj2 (Hmiss p') HI) as (X & Y & Z).
      split; [exact X|]. split; [exact Y|]. split; [exact Z|]. intros _ _ r0 Hr. discriminate Hr.
  - destruct (nth_error (arrays p) ai) as [a|] eqn:En; cbn [option_map]; inv_pair H;
      destruct (proj2 (Hmiss p') HI) as (X & Y & Z); (split; [exact X|]; split; [exact Y|]; split; [exact Z|]).
    + intros _ _ r0 Hr. inv_pair Hr. reflexivity.
    + intros _ _ r0 Hr. discriminate Hr.
  - destruct (nth_error (arrays p) ai) as [a|] eqn:En; cbn [option_map].
    + destruct (m_score p a ts idf k1 b) as [v p1] eqn:E. inv_pair H.
      destruct (m_score_pure _ _ _ _ _ _ _ _ HI (nth_error_In _ _ En) E) as (U & A).
      destruct (upd_out _ _ U) as (X & Y & Z). split; [exact X|]. split; [exact Y|]. split; [exact Z|].
      intros H1 H2 r0 Hr. inv_pair Hr. rewrite (A H1 H2). reflexivity.
    + inv_pair H. destruct (proj2 (Hmiss p') HI) as (X & Y & Z).
      split; [exact X|]. split; [exact Y|]. split; [exact Z|]. intros _ _ r0 Hr. discriminate Hr.
  - destruct (m_select p ai pos) as [v p1] eqn:E. inv_pair H.
    destruct (m_select_pure _ _ _ _ _ HI E) as (X & Y & Z).
    split; [exact X|]. split; [exact Y|]. split; [exact Z|]. intros _ _ r0 Hr. discriminate Hr.
  - destruct (m_copy p ai) as [v p1] eqn:E. inv_pair H.
    destruct (m_copy_pure _ _ _ _ HI E) as (X & Y & Z).
    split; [exact X|]. split; [exact Y|]. split; [exact Z|]. intros _ _ r0 Hr. discriminate Hr.
  - destruct (m_warm p ai) as [v p1] eqn:E. inv_pair H.
    destruct (upd_out _ _ (m_warm_pure _ _ _ _ HI E)) as (X & Y & Z).
    split; [exact X|]. split; [exact Y|]. split; [exact Z|]. intros _ _ r0 Hr. discriminate Hr.
Qed.

(* ================= theorems that need no fact about the postings ================= *)
Theorem step_inv p o r p' : Inv p -> step p o = (r, p') ->
  Inv p' /\ (exists extra, arrays p' = arrays p ++ extra) /\ heap_le p p'.
Proof.
  intros HI H. destruct (step_full _ _ _ _ HI H) as (X & Y & Z & _). split; [exact X|]. split; [exact Y|exact Z].
Qed.

Lemma run_cons p o rest :
  run p (o :: rest) = (fst (step p o) :: fst (run (snd (step p o)) rest), snd (run (snd (step p o)) rest)).
Proof. cbn [run]. destruct (step p o) as [r p1]. cbn [fst snd]. destruct (run p1 rest). reflexivity. Qed.

Theorem run_inv ops : forall p outs p', Inv p -> run p ops = (outs, p') ->
  Inv p' /\ (exists extra, arrays p' = arrays p ++ extra) /\ heap_le p p' /\ length outs = length ops.
Proof.
  induction ops as [|o rest IH]; intros p outs p' HI H.
  - inv_pair H. split; [exact HI|]. split; [exists []; rewrite app_nil_r; reflexivity|].
    split; [apply heap_le_refl|reflexivity].
  - rewrite run_cons in H. inv_pair H.
    destruct (step p o) as [r1 p1] eqn:Es. cbn [fst snd].
    destruct (step_inv _ _ _ _ HI Es) as (I1 & (e1 & A1) & L1).
    destruct (run p1 rest) as [outs1 p2] eqn:Er. cbn [fst snd].
    destruct (IH _ _ _ I1 Er) as (I2 & (e2 & A2) & L2 & Hlen).
    split; [exact I2|]. split; [exists (e1 ++ e2); rewrite A2, A1, app_assoc; reflexivity|].
    split; [eapply heap_le_trans; eassumption|]. cbn [length]. rewrite Hlen. reflexivity.
Qed.

(* pure_answer looks only at [arrays], which only grows by appending *)
Lemma pure_answer_mono p p' o r0 : (exists extra, arrays p' = arrays p ++ extra) ->
  pure_answer p o = Some r0 -> pure_answer p' o = Some r0.
Proof.
  intros (extra & E) H.
  destruct o as [ai t lo hi|ai ts lo hi|ai t|ai t|ai|ai ts idf k1 b|ai pos|ai|ai];
    unfold pure_answer in *; cbv beta iota zeta in *; try discriminate H;
    (destruct (nth_error (arrays p) ai) as [x|] eqn:En; [|discriminate H]);
    (rewrite E, nth_error_app1 by (apply nth_error_Some; congruence)); rewrite En; exact H.
Qed.

Theorem init_inv ix cg : good_posts (ix_posts ix) (N.of_nat (length (ix_lens ix)) - 1) -> Inv (init_pool ix cg).
Proof.
  intro Hg. split.
  - intros i Hi. unfold init_pool in Hi. cbn [heap length] in Hi.
    destruct i as [|i]; [|lia]. unfold get_ps, init_pool. cbn [heap nth].
    split; [exact Hg|]. split; [|exact I].
    split; [|split]; intros t w Hl; discriminate Hl.
  - intros a Ha. unfold init_pool in Ha. cbn [arrays] in Ha. destruct Ha as [<-|[]].
    unfold array_ok, root_of, get_ps, handle_of, init_pool, of_index.
    cbn [heap arrays pa_pid pa_arr nth length ps_ids ps_base ps_root ps_max_doc_id a_posns p_handle p_max_doc_id
         p_df_root a_subset a_rows].
    repeat split; try lia. intros ids Hi. discriminate Hi.
Qed.

(* ================= the answers: premises H1, H2 ================= *)
Section Answers.
Hypothesis slice_idem : slice_idem_hyp.
Hypothesis phrase_local : phrase_local_hyp.

Theorem step_pure p o r p' : Inv p -> step p o = (r, p') ->
  Inv p' /\ (forall r0, pure_answer p o = Some r0 -> r = r0) /\
  (exists extra, arrays p' = arrays p ++ extra) /\ heap_le p p'.
Proof.
  intros HI H. destruct (step_full _ _ _ _ HI H) as (X & Y & Z & A).
  split; [exact X|]. split; [exact (A slice_idem phrase_local)|]. split; [exact Y|exact Z].
Qed.

(* every output of a run is the pure answer at the pool reached just before it *)
Theorem run_pure ops : forall p outs p', Inv p -> run p ops = (outs, p') ->
  Inv p' /\
  forall k o r, nth_error ops k = Some o -> nth_error outs k = Some r ->
    forall r0, pure_answer (snd (run p (firstn k ops))) o = Some r0 -> r = r0.
Proof.
  induction ops as [|o rest IH]; intros p outs p' HI H.
  - inv_pair H. split; [exact HI|]. intros k o r Ho. destruct k; discriminate Ho.
  - rewrite run_cons in H. inv_pair H.
    destruct (step p o) as [r1 p1] eqn:Es. cbn [fst snd].
    destruct (step_pure _ _ _ _ HI Es) as (I1 & A1 & _).
    destruct (run p1 rest) as [outs1 p2] eqn:Er. cbn [fst snd].
    destruct (IH _ _ _ I1 Er) as (I2 & A2).
    split; [exact I2|]. intros k o' r' Ho Hr r0 Hp. destruct k as [|k].
    + cbn [nth_error] in Ho, Hr. inv_pair Ho. inv_pair Hr. cbn [firstn run snd] in Hp. apply A1. exact Hp.
    + cbn [nth_error] in Ho, Hr. cbn [firstn] in Hp. rewrite run_cons in Hp. cbn [snd] in Hp.
      rewrite Es in Hp. cbn [snd] in Hp. eapply A2; eassumption.
Qed.

(* ... hence also the pure answer at the INITIAL pool, for every query on an array that existed initially *)
Corollary run_pure_initial ops p outs p' : Inv p -> run p ops = (outs, p') ->
  forall k o r, nth_error ops k = Some o -> nth_error outs k = Some r ->
    forall r0, pure_answer p o = Some r0 -> r = r0.
Proof.
  intros HI H k o r Ho Hr r0 Hp.
  destruct (run_pure _ _ _ _ HI H) as (_ & A). apply (A k o r Ho Hr).
  destruct (run p (firstn k ops)) as [outs_k pk] eqn:Ek. cbn [snd].
  destruct (run_inv _ _ _ _ HI Ek) as (_ & Hext & _). eapply pure_answer_mono; eassumption.
Qed.

(* repeating a query after any sequence of operations returns what it returned the first time *)
Theorem repeat_same p q r1 p1 ops outs p2 r2 p3 : Inv p -> pure_answer p q <> None ->
  step p q = (r1, p1) -> run p1 ops = (outs, p2) -> step p2 q = (r2, p3) -> r2 = r1.
Proof.
  intros HI Hq H1 Hrun H2. destruct (pure_answer p q) as [r0|] eqn:E; [|contradiction].
  destruct (step_pure _ _ _ _ HI H1) as (I1 & A1 & X1 & _).
  destruct (run_inv _ _ _ _ I1 Hrun) as (I2 & X2 & _).
  destruct (step_pure _ _ _ _ I2 H2) as (_ & A2 & _).
  rewrite (A1 r0 E). apply A2. eapply pure_answer_mono; [exact X2|]. eapply pure_answer_mono; [exact X1|exact E].
Qed.

(* no sequence of operations changes the answer of a later query *)
Theorem history_free p q ops outs p' : Inv p -> pure_answer p q <> None ->
  run p ops = (outs, p') -> fst (step p' q) = fst (step p q).
Proof.
  intros HI Hq Hrun. destruct (pure_answer p q) as [r0|] eqn:E; [|contradiction].
  destruct (run_inv _ _ _ _ HI Hrun) as (I' & X & _).
  destruct (step p q) as [r1 p1] eqn:E1. destruct (step p' q) as [r2 p2] eqn:E2. cbn [fst].
  destruct (step_pure _ _ _ _ HI E1) as (_ & A1 & _).
  destruct (step_pure _ _ _ _ I' E2) as (_ & A2 & _).
  rewrite (A1 r0 E). apply A2. eapply pure_answer_mono; eassumption.
Qed.

(* the same inside one run: the first and the last output of  q :: ops ++ [q]  coincide *)
Corollary repeat_in_run p q ops outs p' : Inv p -> pure_answer p q <> None ->
  run p (q :: ops ++ [q]) = (outs, p') ->
  exists r, nth_error outs 0 = Some r /\ nth_error outs (S (length ops)) = Some r /\ pure_answer p q = Some r.
Proof.
  intros HI Hq Hrun. destruct (pure_answer p q) as [r0|] eqn:E; [|contradiction].
  destruct (run_inv _ _ _ _ HI Hrun) as (_ & _ & _ & Hlen).
  cbn [length] in Hlen. rewrite app_length in Hlen. cbn [length] in Hlen.
  assert (O1 : nth_error (q :: ops ++ [q]) 0 = Some q) by reflexivity.
  assert (O2 : nth_error (q :: ops ++ [q]) (S (length ops)) = Some q).
  { cbn [nth_error]. rewrite nth_error_app2 by lia. rewrite Nat.sub_diag. reflexivity. }
  destruct (nth_error outs 0) as [ra|] eqn:Ea; [|apply nth_error_None in Ea; lia].
  destruct (nth_error outs (S (length ops))) as [rb|] eqn:Eb; [|apply nth_error_None in Eb; lia].
  rewrite (run_pure_initial _ _ _ _ HI Hrun _ _ _ O1 Ea r0 E).
  rewrite (run_pure_initial _ _ _ _ HI Hrun _ _ _ O2 Eb r0 E).
  exists r0. repeat split.
Qed.
End Answers.
End WithGood.


(* ================= non-vacuity ================= *)
Definition ex_docs : list (list N) := [[1;2;1;3];[];[2];[1;1;2];[3;1]].
Definition ex_ops : list op :=
  [ODf 0 1; OTf 0 1 None None; OSelect 0 [4;2;0;0]; OTf 1 1 None None; OPhrase 1 [1;2] None None; OPos 1 1;
   OSelect 1 [1;0]; OTf 1 1 None None; OPos 1 1; OPhrase 1 [1;2] None None; OScore 2 [1] 0 0 0; OScore 1 [1;2] 0 0 0;
   OCopy 1; OWarm 0; OTf 3 2 None None; ODf 2 1; OLens 2; OTf 0 1 None None].

(* pure answers at the pool reached just before each operation *)
Fixpoint pure_trace (p : pool) (ops : list op) : list (option out) :=
  match ops with [] => [] | o :: rest => pure_answer p o :: pure_trace (snd (step p o)) rest end.
Definition agrees (r : out) (e : option out) : Prop := match e with Some r0 => r = r0 | None => True end.

(* Inv holds initially and after a history that fills all three caches, selects a view, selects from that
   view (which resets the view's handle to the un-filtered base) and queries the reset view again. *)
Example inv_nonvacuous :
  match index false 100 ex_docs with
  | AOk ix =>
      let p0 := init_pool ix 0 in
      let pf := snd (run p0 ex_ops) in
      Inv (fun _ _ => True) p0 /\ Inv (fun _ _ => True) pf /\
      (* the reached state really is the interesting one *)
      length (heap pf) = 3%nat /\ length (arrays pf) = 4%nat /\
      ps_filtered_now (get_ps pf 1) = false /\ ps_ids (get_ps pf 1) <> None /\ ps_sliced (get_ps pf 1) <> [] /\
      ps_dfcache (get_ps pf 0) <> [] /\ ps_tfcache (get_ps pf 0) <> [] /\
      (* and on this history every output is the pure answer (checked by computation, no premise) *)
      Forall2 agrees (fst (run p0 ex_ops)) (pure_trace p0 ex_ops)
  | _ => False
  end.
Proof.
  set (r := index false 100 ex_docs). vm_compute in r. subst r. cbv beta iota zeta.
  match goal with |- Inv _ (init_pool ?ix 0) /\ _ => set (ix0 := ix) end.
  assert (I0 : Inv (fun _ _ => True) (init_pool ix0 0)) by (apply init_inv; exact I).
  split; [exact I0|]. split.
  { destruct (run (init_pool ix0 0) ex_ops) as [outs pf] eqn:E. cbn [snd].
    exact (proj1 (run_inv _ _ _ _ _ I0 E)). }
  vm_compute. repeat split; try discriminate. repeat constructor.
Qed.

(* the two premises, evaluated on the example's postings for several row vectors (sanity: they are not absurd) *)
Example hyps_hold_on_example :
  match index false 100 ex_docs with
  | AOk ix =>
      let base := ix_posts ix in
      let maxd := N.of_nat (length (ix_lens ix)) - 1 in
      Forall (fun rows =>
        Forall (fun t =>
          match lookup_posts t base with
          | AOk w => match slice_keys w (np_unique rows) with
                     | Done sl => slice_keys sl (np_unique rows) = Done sl | _ => True end
          | _ => True end) [1;2;3;7] /\
        Forall (fun ts =>
          (ado enc <- get_all_enc (HBase base) ts None None;
           ado pf <- compute_phrase_freqs enc;
           ado dense <- lift (store_many (repeat 0 (N.to_nat (maxd + 1))) pf);
           AOk (gather 0 dense rows))
          = (ado enc <- get_all_enc (HFiltered base (np_unique rows)) ts None None;
             ado pf <- compute_phrase_freqs enc;
             ado dense <- lift (store_many (repeat 0 (N.to_nat (maxd + 1))) pf);
             AOk (gather 0 dense rows))) [[1;2];[2;1];[1;1;2];[3;1];[1;7]])
        [[4;2;0;0];[2;4];[];[0;1;2;3;4];[3];[0;3;3;0]]
  | _ => False
  end.
Proof.
  set (r := index false 100 ex_docs). vm_compute in r. subst r. cbv beta iota zeta.
  repeat first [apply Forall_nil | apply Forall_cons | match goal with |- _ /\ _ => split end];
    cbv beta; vm_compute; first [reflexivity | exact I].
Qed.

(* Assumption audit.  [init_inv] and [hyps_hold_on_example] are closed under the global context.
   Every statement that mentions [step] / [run] inherits exactly the axioms of the DEFINITION [step]
   (printed first as the baseline): they enter through [score_bits] (Flocq binary32 in Score/BM25.v, which
   depends on the standard library's classical reals).  No proof in this file adds an assumption. *)
Print Assumptions step.
Print Assumptions init_inv.
Print Assumptions step_inv.
Print Assumptions run_inv.
Print Assumptions step_pure.
Print Assumptions run_pure.
Print Assumptions run_pure_initial.
Print Assumptions repeat_same.
Print Assumptions history_free.
Print Assumptions repeat_in_run.
Print Assumptions inv_nonvacuous.
Print Assumptions hyps_hold_on_example.
