(* Discharging, for the postings of an indexed corpus, the premises that the purity theorems
   (View/Purity_Proofs.v: slice_idem_hyp, phrase_local_hyp) and the edismax theorem
   (Solr/Edismax_Proofs.v: view_commutes_all, select_ok) carry.

   Each premise quantifies over more than the available theorems cover; what is proved here is the premise
   RESTRICTED as follows (the restriction is part of the definition of the ..._restricted / ..._nar predicate):
     slice_idem_hyp    : row ids are 64-bit values and there are fewer than 2^62 distinct ones
                         (outside this domain the kernel model masks ids to 64 bits: Codec_Proofs2.chks_wide)
     phrase_local_hyp  : no position range (lo = hi = None), no immediately repeated term, rows within the corpus
     view_commutes_all : term lists without an immediately repeated term ([] and [t] included) *)
From Coq Require Import Sorted Permutation QArith.
From SA Require Import Base.Prelude Kernels.Spec Kernels.Linear Kernels.Linear_Proofs Codec.Codec Codec.Codec_Spec
  Codec.Codec_Proofs Codec.Codec_Proofs2 Index.Index Index.Index_Spec Index.Index_Proofs Index.Index_Proofs2
  Index.Index_Proofs3 Query.Phrase Query.Phrase_Spec Query.Phrase_Proofs Query.Phrase_Proofs2 Query.Phrase_Proofs3
  Query.Phrase_Final Query.Range Score.BM25 View.View View.View_Spec View.View_Proofs View.View_Phrase
  View.Purity View.Purity_Proofs Solr.Edismax Solr.Edismax_Proofs.
Open Scope N_scope.

(* ================= Stage 2: the purity premises ================= *)
Definition good_posts_of (docs : list (list N)) : posts -> N -> Prop :=
  fun p maxd => exists bs ix, wf_docs docs /\ index false bs docs = AOk ix /\
                              p = ix_posts ix /\ maxd = N.of_nat (length docs) - 1.

(* the initial pool of an indexed corpus satisfies the purity invariant for this predicate *)
Lemma good_posts_of_index docs bs ix : wf_docs docs -> index false bs docs = AOk ix ->
  good_posts_of docs (ix_posts ix) (N.of_nat (length (ix_lens ix)) - 1).
Proof.
  intros Hwf E. exists bs, ix. split; [exact Hwf|]. split; [exact E|]. split; [reflexivity|].
  rewrite (lens_length docs ix (index_ok_of docs bs ix Hwf E)). reflexivity.
Qed.

Corollary init_inv_of_index docs bs ix cg : wf_docs docs -> index false bs docs = AOk ix ->
  Inv (good_posts_of docs) (init_pool ix cg).
Proof. intros Hwf E. apply init_inv. apply (good_posts_of_index docs bs ix); assumption. Qed.

(* ---- H1 ---- *)
Definition rows_u64 (rows : list N) : Prop :=
  Forall (fun r => r < 2^64) rows /\ N.of_nat (length (np_unique rows)) < 2^62.

Definition slice_idem_hyp_restricted (good : posts -> N -> Prop) : Prop :=
  forall base maxd t w rows sl, good base maxd -> rows_u64 rows -> lookup_posts t base = AOk w ->
    slice_keys w (np_unique rows) = Done sl -> slice_keys sl (np_unique rows) = Done sl.

Lemma filter_idem {A} (f : A -> bool) l : filter f (filter f l) = filter f l.
Proof. rewrite filter_filter'. apply filter_ext. intro x. apply andb_diag. Qed.

Lemma rows_in_corpus_u64 n rows : N.of_nat n < 2^28 -> Forall (fun r => r < N.of_nat n) rows -> rows_u64 rows.
Proof.
  intros Hn F. split.
  - eapply Forall_impl; [|exact F]. cbn beta. intros r Hr. pows. lia.
  - pose proof (np_unique_length rows n F). rewrite pow62. rewrite pow28 in Hn. lia.
Qed.

Theorem slice_idem_holds_partial : forall docs, slice_idem_hyp_restricted (good_posts_of docs).
Proof.
  intros docs base maxd t w rows sl (bs & ix & Hwf & E & -> & _) (Hr64 & Hrl) Hl Hs1.
  pose proof (index_ok_of docs bs ix Hwf E) as (Hp & Ha & _).
  unfold lookup_posts in Hl. destruct (lookup t (ix_posts ix)) as [w'|] eqn:L; [|discriminate].
  inversion Hl; subst w'. clear Hl.
  destruct (in_dec N.eq_dec t (concat docs)) as [Hi|Hn]; [|rewrite (Ha t Hn) in L; discriminate].
  rewrite (Hp t Hi) in L. inversion L; subst w. clear L.
  destruct (term_pairs_good docs t Hwf) as (S & B & _ & Len).
  set (ps := term_pairs docs t) in *. set (ids := np_unique rows) in *.
  assert (Hids : Sorted N.lt ids) by apply np_unique_sorted.
  assert (Hi64 : Forall (fun k => k < 2^64) ids) by (apply np_unique_forall; exact Hr64).
  rewrite (slice_keys_correct ps ids S B Hids Hi64 Len Hrl) in Hs1. inversion Hs1; subst sl. clear Hs1.
  unfold slice_spec.
  rewrite slice_keys_correct; try assumption.
  - unfold slice_spec. rewrite filter_idem. reflexivity.
  - apply sorted2_filter. exact S.
  - apply bounded_filter. exact B.
  - pose proof (filter_len_le (fun kp : N * N => mem_n (fst kp) ids) ps). rewrite pow62 in *. lia.
Qed.

(* in particular for rows within the corpus *)
Corollary slice_idem_rows_in_corpus docs base maxd t w rows sl :
  good_posts_of docs base maxd -> Forall (fun r => r < N.of_nat (length docs)) rows ->
  lookup_posts t base = AOk w ->
  slice_keys w (np_unique rows) = Done sl -> slice_keys sl (np_unique rows) = Done sl.
Proof.
  intros Hg F. apply (slice_idem_holds_partial docs base maxd t w rows sl Hg).
  destruct Hg as (bs & ix & Hwf & _). apply (rows_in_corpus_u64 (length docs)); [exact (proj2 Hwf)|exact F].
Qed.

(* ---- H2 ---- *)
Definition phrase_local_hyp_restricted (good : posts -> N -> Prop) (n : nat) : Prop :=
  forall base maxd ts rows, good base maxd -> (2 <= length ts)%nat ->
    no_adjacent_repeat ts = true -> Forall (fun r => r < N.of_nat n) rows ->
    (ado enc <- get_all_enc (HBase base) ts None None;
     ado pf <- compute_phrase_freqs enc;
     ado dense <- lift (store_many (repeat 0 (N.to_nat (maxd + 1))) pf);
     AOk (gather 0 dense rows))
    = (ado enc <- get_all_enc (HFiltered base (np_unique rows)) ts None None;
       ado pf <- compute_phrase_freqs enc;
       ado dense <- lift (store_many (repeat 0 (N.to_nat (maxd + 1))) pf);
       AOk (gather 0 dense rows)).

(* a phrase with a term that has no postings raises KeyError through either handle *)
Lemma get_all_enc_absent (docs : list (list N)) h :
  (forall t, In t (concat docs) -> exists w, get_enc h t = AOk w) ->
  (forall t, ~ In t (concat docs) -> get_enc h t = AExc KeyError) ->
  forall ts, (exists t, In t ts /\ ~ In t (concat docs)) -> get_all_enc h ts None None = AExc KeyError.
Proof.
  intros Hin Hout. induction ts as [|t r IH]; intros (t0 & H0 & Hn0); [destruct H0|].
  cbn [get_all_enc]. destruct (in_dec N.eq_dec t (concat docs)) as [Hi|Hn].
  - destruct (Hin t Hi) as (w & ->). cbn [abind]. rewrite IH; [reflexivity|].
    exists t0. split; [|exact Hn0]. destruct H0 as [<-|H0]; [contradiction|exact H0].
  - rewrite (Hout t Hn). reflexivity.
Qed.

Theorem phrase_local_holds_partial : forall docs, phrase_local_hyp_restricted (good_posts_of docs) (length docs).
Proof.
  intros docs base maxd ts rows (bs & ix & Hwf & E & -> & ->) Hlen Hrep Hrows.
  pose proof (index_ok_of docs bs ix Hwf E) as Hok. pose proof Hok as (Hp & Ha & Hterms & _).
  set (maxd := N.of_nat (length docs) - 1).
  set (ids := np_unique rows).
  assert (Hids : Sorted N.lt ids) by apply np_unique_sorted.
  assert (Hidb : Forall (fun r => r < N.of_nat (length docs)) ids) by (apply np_unique_forall; exact Hrows).
  set (Q1 := fun _ : N => true). set (Q2 := fun k => mem_n k ids && Q1 k).
  assert (Henc1 : forall t, In t (concat docs) -> get_enc (HBase (ix_posts ix)) t = AOk (encode_spec (fpairs docs Q1 t))).
  { intros t Ht. cbn [get_enc]. unfold lookup_posts. rewrite (root_sel docs ix Hok t Ht). reflexivity. }
  assert (Henc2 : forall t, In t (concat docs) ->
            get_enc (HFiltered (ix_posts ix) ids) t = AOk (encode_spec (fpairs docs Q2 t))).
  { intros t Ht. unfold Q2, Q1. cbn [get_enc]. unfold lookup_posts. rewrite (root_sel docs ix Hok t Ht). cbn [abind].
    rewrite (slice_fpairs docs Hwf (fun _ => true) t ids Hids Hidb). reflexivity. }
  destruct (forallb (known ix) ts) eqn:K.
  - (* every term has postings: both sides are the occurrence counts of the rows *)
    assert (Hall : forall t, In t ts -> In t (concat docs)).
    { intros t Hin. rewrite forallb_forall in K. apply (known_iff docs ix t Hterms). apply K. exact Hin. }
    assert (Hmax : forall Q k, k < N.of_nat (length docs) -> Q k = true -> k <= maxd).
    { intros Q k Hk _. unfold maxd. lia. }
    rewrite (get_all_enc_sel docs _ Q1 Henc1 ts Hall), (get_all_enc_sel docs _ Q2 Henc2 ts Hall). cbn [abind].
    destruct (phrase_pipeline docs Hwf Q1 maxd ts Hlen Hrep (Hmax Q1)) as (pf1 & d1 & E1 & S1 & _ & G1).
    destruct (phrase_pipeline docs Hwf Q2 maxd ts Hlen Hrep (Hmax Q2)) as (pf2 & d2 & E2 & S2 & _ & G2).
    rewrite E1, E2. cbn [abind]. rewrite S1, S2. cbn [lift abind]. f_equal.
    unfold gather. apply map_ext_in. intros r Hr.
    rewrite Forall_forall in Hrows. specialize (Hrows r Hr).
    rewrite G1, G2; try reflexivity; try (unfold maxd; lia).
    unfold Q2, Q1, ids. rewrite np_unique_mem, (proj2 (mem_n_in r rows) Hr). reflexivity.
  - (* some term has no postings: KeyError on both sides *)
    destruct (forallb_false _ _ K) as (t & Hin & Hk).
    assert (Hnot : ~ In t (concat docs)).
    { intro Hc. rewrite (known_true docs ix t Hterms Hc) in Hk. discriminate. }
    rewrite (get_all_enc_absent docs (HBase (ix_posts ix))), (get_all_enc_absent docs (HFiltered (ix_posts ix) ids)).
    + reflexivity.
    + intros t' Ht'. eexists. apply Henc2. exact Ht'.
    + intros t' Ht'. cbn [get_enc]. unfold lookup_posts. rewrite (Ha t' Ht'). reflexivity.
    + exists t. split; assumption.
    + intros t' Ht'. eexists. apply Henc1. exact Ht'.
    + intros t' Ht'. cbn [get_enc]. unfold lookup_posts. rewrite (Ha t' Ht'). reflexivity.
    + exists t. split; assumption.
Qed.

(* ================= Stage 3: the edismax premises ================= *)
Definition fresh_fields (n : nat) (q : equery) : Prop :=
  forall f, In f (eq_fields q) -> exists docs bs ix,
    wf_docs docs /\ index false bs docs = AOk ix /\ ef_arr f = of_index ix true /\ length docs = n.

(* view_commutes_all, for term lists without an immediately repeated term *)
Definition view_commutes_all_nar (idf : idf_table) (n : nat) (q : equery) : Prop :=
  forall fi f b ts pos v, In f (eq_fields q) -> no_adjacent_repeat ts = true ->
    select (ef_arr f) pos = AOk v ->
    StronglySorted N.lt pos -> Forall (fun i => (N.to_nat i < n)%nat) pos ->
    boosted_scores idf fi v b ts =
    ado sc <- boosted_scores idf fi (ef_arr f) b ts; AOk (map (fun i => nth (N.to_nat i) sc 0%Q) pos).

Lemma gather_rows0_id docs pos : Forall (fun i => i < N.of_nat (length docs)) pos -> gather_rows (rows0 docs) pos = pos.
Proof.
  intro F. unfold gather_rows, rows0. rewrite <- (map_id pos) at 2. apply map_ext_in. intros i Hi.
  rewrite Forall_forall in F. specialize (F i Hi).
  rewrite (nth_indep _ 0 (N.of_nat 0)) by (rewrite map_length, seq_length; lia).
  rewrite map_nth, seq_nth by lia. lia.
Qed.

Theorem view_commutes_all_holds_partial idf n q : fresh_fields n q -> view_commutes_all_nar idf n q.
Proof.
  intros HF fi f b ts pos v Hf Hrep Hsel _ Hpos.
  destruct (HF f Hf) as (docs & bs & ix & Hwf & E & Ef & Ln). rewrite Ef in *. subst n.
  assert (Hpos' : Forall (fun i => i < N.of_nat (length docs)) pos).
  { eapply Forall_impl; [|exact Hpos]. cbn beta. intros i Hi. lia. }
  assert (Hv : valid_keys (length docs) [pos]) by (split; [exact Hpos'|exact I]).
  assert (Ev : select_chain (of_index ix true) [pos] = AOk v).
  { cbn [select_chain]. rewrite Hsel. reflexivity. }
  unfold boosted_scores.
  rewrite (C06_score_commutes docs bs ix true [pos] v ts _ _ _ Hwf E Hv Ev Hrep).
  cbn [compose_rows]. rewrite (gather_rows0_id docs pos Hpos').
  destruct (v_score_bm25 (of_index ix true) ts (idf_lookup idf fi ts) K1_BITS B_BITS) as [s| | |] eqn:Es;
    cbn [abind]; try reflexivity.
  pose proof (parent_score_length docs bs ix true ts _ _ _ s Hwf E Hrep Es) as Ls.
  f_equal. destruct b as [bb|]; rewrite !map_map; apply map_ext_in; intros i Hi;
    rewrite Forall_forall in Hpos; specialize (Hpos i Hi); symmetry;
    rewrite (nth_map_in _ s _ 0%Z 0%Q) by lia; reflexivity.
Qed.

(* the other premise of C10 about selection: a fresh field array with avoid_copies = true never fails to select *)
Theorem select_ok_fresh n q : fresh_fields n q -> select_ok n q.
Proof.
  intros HF f pos Hf _ _. destruct (HF f Hf) as (docs & bs & ix & _ & _ & Ef & _). rewrite Ef.
  apply select_avoid_copies_ok. reflexivity.
Qed.

(* two of the wf_query clauses for fresh fields: the row count, and (for term lists without an immediately
   repeated term) the length of a score vector, which wf_query lists as a hypothesis *)
Lemma wf_rows_fresh n q : fresh_fields n q -> forall f, In f (eq_fields q) -> nrows (ef_arr f) = n.
Proof.
  intros HF f Hf. destruct (HF f Hf) as (docs & bs & ix & Hwf & E & Ef & Ln). rewrite Ef.
  unfold nrows. cbn [of_index a_rows]. rewrite map_length, seq_length.
  rewrite (lens_length docs ix (index_ok_of docs bs ix Hwf E)). exact Ln.
Qed.

Lemma wf_len_fresh_partial idf n q : fresh_fields n q -> forall fi f b ts sc, In f (eq_fields q) ->
  no_adjacent_repeat ts = true -> boosted_scores idf fi (ef_arr f) b ts = AOk sc -> length sc = n.
Proof.
  intros HF fi f b ts sc Hf Hrep H. destruct (HF f Hf) as (docs & bs & ix & Hwf & E & Ef & Ln). rewrite Ef in H.
  unfold boosted_scores in H.
  destruct (v_score_bm25 (of_index ix true) ts (idf_lookup idf fi ts) K1_BITS B_BITS) as [s| | |] eqn:Es;
    cbn [abind] in H; try discriminate.
  pose proof (parent_score_length docs bs ix true ts _ _ _ s Hwf E Hrep Es) as Ls.
  inversion H; subst sc. destruct b; rewrite !map_length; lia.
Qed.

Print Assumptions slice_idem_holds_partial.
Print Assumptions phrase_local_holds_partial.
Print Assumptions view_commutes_all_holds_partial.
Print Assumptions select_ok_fresh.
