(* C07 for indexed corpora, PREMISE-FREE on a restricted operation domain.
   View/Purity_Gen.v is instantiated with
     good_posts := good_posts_of docs                (the postings of  index false bs docs)
     R          := rows_in docs                      (row ids within the corpus)
     Q          := phrase_dom                        (no position range, no immediately repeated term)
   and both premises are discharged by View_Phrase2.slice_idem_holds_partial / phrase_local_holds_partial.

   The operation domain is a BOOLEAN, STATIC check ([op_okb], [ops_okb]): it looks only at the operations and at
   the shape of the pool (per array: is it a view, its row vector), which is itself computed from the operations
   by [shape_step] without running the machine.  n = number of documents.
     OTf  (any array, any term, ANY range), OPos, ODf, OLens, OCopy, OWarm : always in the domain
     OPhrase / OScore on the ROOT array (or a copy of it)                  : always in the domain (any range)
     OPhrase / OScore with < 2 terms                                       : always in the domain
     OPhrase on a VIEW with >= 2 terms  : lo = hi = None and no_adjacent_repeat ts
     OScore  on a VIEW with >= 2 terms  : no_adjacent_repeat ts
     OSelect ai pos                     : the selected row ids are < n  (always true when the corpus is non-empty:
                                          [select_okb_nonempty]; true for in-range positions: [select_okb_in_range]) *)
From Coq Require Import Sorted Permutation QArith.
From SA Require Import Base.Prelude Kernels.Spec Kernels.Linear Codec.Codec Codec.Codec_Proofs Index.Index Index.Index_Spec
  Index.Index_Proofs Index.Index_Proofs2 Index.Index_Proofs3 Query.Phrase Query.Phrase_Spec Query.Range Score.BM25
  View.View View.View_Spec View.View_Proofs View.View_Phrase View.Purity View.Purity_Proofs View.View_Phrase2
  View.Purity_Gen.
Open Scope N_scope.

(* ================= the domain ================= *)
Definition rows_in (docs : list (list N)) (rows : list N) : Prop := Forall (fun r => r < N.of_nat (length docs)) rows.
Definition phrase_dom (ts : list N) (lo hi : option N) (rows : list N) : Prop :=
  lo = None /\ hi = None /\ no_adjacent_repeat ts = true.

Definition is_none {A} (o : option A) : bool := match o with None => true | Some _ => false end.
Definition view_at (sh : shape) (ai : nat) : bool :=
  match nth_error sh ai with Some (true, _) => true | _ => false end.

Definition op_okb (n : N) (sh : shape) (o : op) : bool :=
  match o with
  | OPhrase ai ts lo hi =>
      if view_at sh ai && (2 <=? length ts)%nat then is_none lo && is_none hi && no_adjacent_repeat ts else true
  | OScore ai ts _ _ _ =>
      if view_at sh ai && (2 <=? length ts)%nat then no_adjacent_repeat ts else true
  | OSelect ai pos =>
      match nth_error sh ai with
      | Some (_, rows) => forallb (fun r => r <? n) (gather 0 rows pos)
      | None => true
      end
  | _ => true
  end.
Fixpoint ops_okb (n : N) (sh : shape) (ops : list op) : bool :=
  match ops with [] => true | o :: rest => op_okb n sh o && ops_okb n (shape_step sh o) rest end.

(* the shape of the initial pool of a corpus of n documents: one root array with rows 0 .. n-1 *)
Definition shape0 (n : nat) : shape := [(false, map N.of_nat (seq 0 n))].

(* a history / a query after a history, for a corpus: everything is computed from docs and the operations *)
Definition ops_in_domain (docs : list (list N)) (ops : list op) : Prop :=
  ops_okb (N.of_nat (length docs)) (shape0 (length docs)) ops = true.
Definition op_in_domain_after (docs : list (list N)) (ops : list op) (q : op) : Prop :=
  op_okb (N.of_nat (length docs)) (shape_run (shape0 (length docs)) ops) q = true.

Lemma ops_okb_app n ops1 : forall sh ops2,
  ops_okb n sh (ops1 ++ ops2) = ops_okb n sh ops1 && ops_okb n (shape_run sh ops1) ops2.
Proof.
  induction ops1 as [|o rest IH]; intros sh ops2; cbn [app ops_okb shape_run]; [reflexivity|].
  rewrite IH, andb_assoc. reflexivity.
Qed.

Lemma shape_run_app ops1 : forall sh ops2, shape_run sh (ops1 ++ ops2) = shape_run (shape_run sh ops1) ops2.
Proof. induction ops1 as [|o rest IH]; intros sh ops2; cbn [app shape_run]; [reflexivity|apply IH]. Qed.

(* ---- the boolean check implies the domain predicate of Purity_Gen ---- *)
Section Dom.
Variable docs : list (list N).
Local Notation n := (N.of_nat (length docs)).
Local Notation OPDOM := (op_dom (rows_in docs) phrase_dom).
Local Notation OPSDOM := (ops_dom (rows_in docs) phrase_dom).

Lemma op_okb_dom sh o : op_okb n sh o = true -> OPDOM sh o.
Proof.
  intro H. destruct o as [ai t lo hi|ai ts lo hi|ai t|ai t|ai|ai ts idf k1 b|ai pos|ai|ai];
    cbn [op_okb op_dom] in *; try exact I.
  - intros rows Hn Hl. unfold view_at in H. rewrite Hn in H.
    destruct (Nat.leb_spec 2 (length ts)) as [_|Hlt]; [|lia]. cbn [andb] in H.
    apply andb_true_iff in H. destruct H as (H & H3). apply andb_true_iff in H. destruct H as (H1 & H2).
    destruct lo; [discriminate H1|]. destruct hi; [discriminate H2|]. repeat split. exact H3.
  - intros rows Hn Hl. unfold view_at in H. rewrite Hn in H.
    destruct (Nat.leb_spec 2 (length ts)) as [_|Hlt]; [|lia]. cbn [andb] in H. repeat split. exact H.
  - intros b rows Hn. rewrite Hn in H. unfold rows_in. apply Forall_forall. intros r Hr.
    rewrite forallb_forall in H. specialize (H r Hr). apply N.ltb_lt in H. exact H.
Qed.

Lemma ops_okb_dom ops : forall sh, ops_okb n sh ops = true -> OPSDOM sh ops.
Proof.
  induction ops as [|o rest IH]; intros sh H; cbn [ops_okb ops_dom] in *; [exact I|].
  apply andb_true_iff in H. destruct H as (H1 & H2). split; [apply op_okb_dom; exact H1|apply IH; exact H2].
Qed.

(* ---- readable sufficient conditions for the selection clause ---- *)
Lemma gather_rows_in rows pos : rows_in docs rows -> Forall (fun i => (N.to_nat i < length rows)%nat) pos ->
  rows_in docs (gather 0 rows pos).
Proof.
  unfold rows_in, gather. intros Hr Hp. apply Forall_forall. intros r Hin. apply in_map_iff in Hin.
  destruct Hin as (i & <- & Hi). rewrite Forall_forall in Hp. specialize (Hp i Hi).
  rewrite Forall_forall in Hr. apply Hr. apply nth_In. exact Hp.
Qed.

Lemma gather_rows_in_nonempty rows pos : docs <> [] -> rows_in docs rows -> rows_in docs (gather 0 rows pos).
Proof.
  unfold rows_in, gather. intros Hne Hr. apply Forall_forall. intros r Hin. apply in_map_iff in Hin.
  destruct Hin as (i & <- & Hi). destruct (Nat.lt_ge_cases (N.to_nat i) (length rows)) as [Hlt|Hge].
  - rewrite Forall_forall in Hr. apply Hr. apply nth_In. exact Hlt.
  - rewrite nth_overflow by exact Hge. destruct docs; [congruence|]. cbn [length]. lia.
Qed.

Lemma rows_in_okb rows : rows_in docs rows -> forallb (fun r => r <? n) rows = true.
Proof.
  unfold rows_in. rewrite Forall_forall, forallb_forall. intros H r Hr. apply N.ltb_lt. apply H. exact Hr.
Qed.

(* selecting in-range positions from an array whose rows are within the corpus is in the domain *)
Lemma select_okb_in_range sh ai pos : shape_ok (rows_in docs) sh ->
  (forall b rows, nth_error sh ai = Some (b, rows) -> Forall (fun i => (N.to_nat i < length rows)%nat) pos) ->
  op_okb n sh (OSelect ai pos) = true.
Proof.
  intros Hs Hp. cbn [op_okb]. destruct (nth_error sh ai) as [[b rows]|] eqn:En; [|reflexivity].
  apply rows_in_okb. apply gather_rows_in; [|exact (Hp b rows eq_refl)].
  unfold shape_ok in Hs. rewrite Forall_forall in Hs. exact (Hs _ (nth_error_In _ _ En)).
Qed.

(* on a non-empty corpus every selection is in the domain *)
Lemma select_okb_nonempty sh ai pos : docs <> [] -> shape_ok (rows_in docs) sh -> op_okb n sh (OSelect ai pos) = true.
Proof.
  intros Hne Hs. cbn [op_okb]. destruct (nth_error sh ai) as [[b rows]|] eqn:En; [|reflexivity].
  apply rows_in_okb. apply gather_rows_in_nonempty; [exact Hne|].
  unfold shape_ok in Hs. rewrite Forall_forall in Hs. exact (Hs _ (nth_error_In _ _ En)).
Qed.

(* ================= the two premises hold on the domain ================= *)
Theorem slice_idem_on_indexed : slice_idem_on (good_posts_of docs) (rows_in docs).
Proof.
  intros base maxd t w rows sl Hg HR Hl Hs. exact (slice_idem_rows_in_corpus docs base maxd t w rows sl Hg HR Hl Hs).
Qed.

Theorem phrase_local_on_indexed : phrase_local_on (good_posts_of docs) (rows_in docs) phrase_dom.
Proof.
  intros base maxd ts lo hi rows Hg Hl HR (-> & -> & Hnar).
  exact (phrase_local_holds_partial docs base maxd ts rows Hg Hl Hnar HR).
Qed.

(* ================= reachable pools satisfy the strengthened invariant ================= *)
Lemma shape_of_init_docs bs ix cg : wf_docs docs -> index false bs docs = AOk ix ->
  shape_of (init_pool ix cg) = shape0 (length docs).
Proof.
  intros Hwf E. rewrite shape_of_init. unfold shape0.
  rewrite (lens_length docs ix (index_ok_of docs bs ix Hwf E)). reflexivity.
Qed.

Lemma shape0_ok : shape_ok (rows_in docs) (shape0 (length docs)).
Proof.
  unfold shape_ok, shape0. constructor; [|constructor]. cbn [snd]. unfold rows_in. apply Forall_forall.
  intros r Hr. apply in_map_iff in Hr. destruct Hr as (k & <- & Hk). apply in_seq in Hk. lia.
Qed.

Theorem indexed_init_inv bs ix cg : wf_docs docs -> index false bs docs = AOk ix ->
  InvR (good_posts_of docs) (rows_in docs) (init_pool ix cg).
Proof.
  intros Hwf E. split; [apply (init_inv_of_index docs bs ix cg Hwf E)|].
  rewrite (shape_of_init_docs bs ix cg Hwf E). exact shape0_ok.
Qed.

Lemma indexed_reach bs ix cg ops outs p : wf_docs docs -> index false bs docs = AOk ix ->
  ops_in_domain docs ops -> run (init_pool ix cg) ops = (outs, p) ->
  InvR (good_posts_of docs) (rows_in docs) p /\ shape_of p = shape_run (shape0 (length docs)) ops /\
  (exists extra, arrays p = arrays (init_pool ix cg) ++ extra) /\ length outs = length ops.
Proof.
  intros Hwf E Hd Hrun. pose proof (indexed_init_inv bs ix cg Hwf E) as HI.
  pose proof (shape_of_init_docs bs ix cg Hwf E) as Hs0.
  assert (Hd' : OPSDOM (shape_of (init_pool ix cg)) ops) by (rewrite Hs0; apply ops_okb_dom; exact Hd).
  destruct (run_inv_gen _ _ _ _ _ _ _ HI Hd' Hrun) as (I1 & X & _ & Hlen).
  split; [exact I1|]. split; [|split; [exact X|exact Hlen]].
  rewrite (shape_of_run _ _ _ _ _ (proj1 HI) Hrun), Hs0. reflexivity.
Qed.

(* ================= premise-free theorems ================= *)
(* one more in-domain operation on a pool reached by an in-domain history: the invariant is kept and the
   output is the history-free answer *)
Theorem indexed_step_pure bs ix cg ops outs p q r p' :
  wf_docs docs -> index false bs docs = AOk ix ->
  ops_in_domain docs ops -> run (init_pool ix cg) ops = (outs, p) ->
  op_in_domain_after docs ops q -> step p q = (r, p') ->
  (forall r0, pure_answer p q = Some r0 -> r = r0) /\
  InvR (good_posts_of docs) (rows_in docs) p' /\ (exists extra, arrays p' = arrays p ++ extra) /\ heap_le p p'.
Proof.
  intros Hwf E Hd Hrun Hq Hstep.
  destruct (indexed_reach bs ix cg ops outs p Hwf E Hd Hrun) as (HI & Hs & _).
  assert (Hq' : OPDOM (shape_of p) q) by (rewrite Hs; apply op_okb_dom; exact Hq).
  destruct (step_pure_gen _ _ _ slice_idem_on_indexed phrase_local_on_indexed _ _ _ _ HI Hq' Hstep) as (X & A & Y & Z).
  split; [exact A|]. split; [exact X|]. split; [exact Y|exact Z].
Qed.

(* every output of an in-domain history is the history-free answer at the pool reached just before it *)
Theorem indexed_run_pure bs ix cg ops outs p' :
  wf_docs docs -> index false bs docs = AOk ix ->
  ops_in_domain docs ops -> run (init_pool ix cg) ops = (outs, p') ->
  forall k o r, nth_error ops k = Some o -> nth_error outs k = Some r ->
    forall r0, pure_answer (snd (run (init_pool ix cg) (firstn k ops))) o = Some r0 -> r = r0.
Proof.
  intros Hwf E Hd Hrun. pose proof (indexed_init_inv bs ix cg Hwf E) as HI.
  assert (Hd' : OPSDOM (shape_of (init_pool ix cg)) ops).
  { rewrite (shape_of_init_docs bs ix cg Hwf E). apply ops_okb_dom. exact Hd. }
  exact (proj2 (run_pure_gen _ _ _ slice_idem_on_indexed phrase_local_on_indexed _ _ _ _ HI Hd' Hrun)).
Qed.

(* ... in particular, for a query on the root array, the answer on the freshly indexed array *)
Corollary indexed_run_pure_initial bs ix cg ops outs p' :
  wf_docs docs -> index false bs docs = AOk ix ->
  ops_in_domain docs ops -> run (init_pool ix cg) ops = (outs, p') ->
  forall k o r, nth_error ops k = Some o -> nth_error outs k = Some r ->
    forall r0, pure_answer (init_pool ix cg) o = Some r0 -> r = r0.
Proof.
  intros Hwf E Hd Hrun. pose proof (indexed_init_inv bs ix cg Hwf E) as HI.
  assert (Hd' : OPSDOM (shape_of (init_pool ix cg)) ops).
  { rewrite (shape_of_init_docs bs ix cg Hwf E). apply ops_okb_dom. exact Hd. }
  exact (run_pure_initial_gen _ _ _ slice_idem_on_indexed phrase_local_on_indexed _ _ _ _ HI Hd' Hrun).
Qed.

(* history freedom: after the in-domain history ops1, an in-domain query q answers the same before and after
   any further in-domain history ops2 *)
Theorem indexed_history_free bs ix cg ops1 outs1 p1 ops2 outs2 p2 q :
  wf_docs docs -> index false bs docs = AOk ix ->
  ops_in_domain docs (ops1 ++ ops2) ->
  run (init_pool ix cg) ops1 = (outs1, p1) -> run p1 ops2 = (outs2, p2) ->
  op_in_domain_after docs ops1 q -> pure_answer p1 q <> None ->
  fst (step p2 q) = fst (step p1 q).
Proof.
  intros Hwf E Hd Hrun1 Hrun2 Hq Hpa. unfold ops_in_domain in Hd. rewrite ops_okb_app in Hd.
  apply andb_true_iff in Hd. destruct Hd as (Hd1 & Hd2).
  destruct (indexed_reach bs ix cg ops1 outs1 p1 Hwf E Hd1 Hrun1) as (HI & Hs & _).
  apply (history_free_gen _ _ _ slice_idem_on_indexed phrase_local_on_indexed p1 q ops2 outs2 p2 HI Hpa).
  - rewrite Hs. apply op_okb_dom. exact Hq.
  - rewrite Hs. apply ops_okb_dom. exact Hd2.
  - exact Hrun2.
Qed.

(* every query on the freshly indexed array is in the domain (it is a root array) *)
Lemma root_query_okb k q : (exists ai, match q with OTf a _ _ _ | OPhrase a _ _ _ | OPos a _ | ODf a _ | OLens a
                                               | OScore a _ _ _ _ => a = ai | _ => False end /\ ai = 0%nat) ->
  op_okb n (shape0 k) q = true.
Proof.
  intros (ai & Hq & ->). destruct q; try contradiction; subst; reflexivity.
Qed.

Lemma pure_answer_init_root ix cg q : pure_answer (init_pool ix cg) q <> None ->
  exists ai, match q with OTf a _ _ _ | OPhrase a _ _ _ | OPos a _ | ODf a _ | OLens a
                        | OScore a _ _ _ _ => a = ai | _ => False end /\ ai = 0%nat.
Proof.
  intro H. destruct q as [ai t lo hi|ai ts lo hi|ai t|ai t|ai|ai ts idf k1 b|ai pos|ai|ai];
    unfold pure_answer, init_pool in H; cbv beta iota zeta in H; cbn [arrays] in H;
    try (exfalso; apply H; reflexivity);
    (destruct ai as [|ai]; [exists 0%nat; split; reflexivity|]);
    exfalso; apply H; destruct ai; reflexivity.
Qed.

(* the special case the goal asked for: any query on the freshly indexed array (any range, any phrase)
   answers after an in-domain history what it answers on the fresh pool *)
Corollary indexed_history_free_initial bs ix cg ops outs p' q :
  wf_docs docs -> index false bs docs = AOk ix ->
  ops_in_domain docs ops -> pure_answer (init_pool ix cg) q <> None ->
  run (init_pool ix cg) ops = (outs, p') ->
  fst (step p' q) = fst (step (init_pool ix cg) q).
Proof.
  intros Hwf E Hd Hpa Hrun.
  apply (indexed_history_free bs ix cg [] [] (init_pool ix cg) ops outs p' q Hwf E); try assumption; try reflexivity.
  unfold op_in_domain_after. cbn [shape_run]. apply root_query_okb. eapply pure_answer_init_root. exact Hpa.
Qed.

(* repeating an in-domain query after any further in-domain history returns what it returned the first time *)
Theorem indexed_repeat_same bs ix cg ops1 outs1 p1 q r1 p1' ops2 outs2 p2 r2 p3 :
  wf_docs docs -> index false bs docs = AOk ix ->
  ops_in_domain docs (ops1 ++ q :: ops2) ->
  run (init_pool ix cg) ops1 = (outs1, p1) -> pure_answer p1 q <> None ->
  step p1 q = (r1, p1') -> run p1' ops2 = (outs2, p2) -> step p2 q = (r2, p3) -> r2 = r1.
Proof.
  intros Hwf E Hd Hrun1 Hpa H1 Hrun2 H2. unfold ops_in_domain in Hd. rewrite ops_okb_app in Hd.
  apply andb_true_iff in Hd. destruct Hd as (Hd1 & Hd2). cbn [ops_okb] in Hd2.
  apply andb_true_iff in Hd2. destruct Hd2 as (Hq & Hd2).
  destruct (indexed_reach bs ix cg ops1 outs1 p1 Hwf E Hd1 Hrun1) as (HI & Hs & _).
  apply (repeat_same_gen _ _ _ slice_idem_on_indexed phrase_local_on_indexed p1 q r1 p1' ops2 outs2 p2 r2 p3 HI Hpa).
  - rewrite Hs. apply op_okb_dom. exact Hq.
  - rewrite (shape_of_step _ _ _ _ _ (proj1 HI) H1), Hs. apply ops_okb_dom. exact Hd2.
  - exact H1.
  - exact Hrun2.
  - exact H2.
Qed.
End Dom.

(* ================= non-vacuity ================= *)
(* the example corpus and history of Purity_Proofs.v (fills all three caches, selects a view, queries it with
   tf / phrase / positions, selects from the view -- which resets the view's handle --, queries the reset view
   again, scores a single term and a phrase on views, copies, warms) are in the domain *)
Example ex_wf : wf_docs ex_docs.
Proof. split; [repeat (apply Forall_cons; [cbn; lia|]); apply Forall_nil|rewrite pow28; cbn; lia]. Qed.

Example ex_in_domain : ops_in_domain ex_docs ex_ops.
Proof. vm_compute. reflexivity. Qed.

(* a longer history on the same corpus: ranged term frequencies on views, ranged phrases on the root,
   a three-term phrase on a view of a view, an out-of-range selection position (the model substitutes row id 0), repeats *)
Definition ex_ops2 : list op :=
  [OPhrase 0 [1;2] (Some 0) (Some 2); OPhrase 0 [1;1;2] None None;          (* root: any range, repeated term *)
   OSelect 0 [4;2;0;0;3]; OTf 1 1 (Some 1) None; OPhrase 1 [1;2] None None; ODf 1 2;
   OSelect 1 [1;0;3;4;9]; OPhrase 1 [1;2] None None; OPhrase 2 [2;1;3] None None; OPhrase 2 [1] (Some 0) None;
   OScore 2 [3;1] 0 0 0; OTf 1 1 (Some 1) None; OPos 2 2; OCopy 2; OPhrase 3 [1;2] None None; OWarm 0;
   OPhrase 0 [1;2] (Some 0) (Some 2); OPhrase 1 [1;2] None None].

Example ex2_in_domain : ops_in_domain ex_docs ex_ops2 /\
  shape_run (shape0 (length ex_docs)) ex_ops2 =
    [(false, [0;1;2;3;4]); (true, [4;2;0;0;3]); (true, [2;4;0;3;0]); (true, [2;4;0;3;0])].
Proof. vm_compute. split; reflexivity. Qed.

(* the check is not trivially true: ranged or repeated-term phrases ON A VIEW, and selections on an empty
   corpus, are rejected *)
Example ex_out_of_domain :
  ops_okb 5 (shape0 5) [OSelect 0 [1;2]; OPhrase 1 [1;2] (Some 0) None] = false /\
  ops_okb 5 (shape0 5) [OSelect 0 [1;2]; OPhrase 1 [1;1;2] None None] = false /\
  ops_okb 5 (shape0 5) [OSelect 0 [1;2]; OScore 1 [2;2] 0 0 0] = false /\
  ops_okb 0 (shape0 0) [OSelect 0 [0]] = false /\
  ops_okb 5 (shape0 5) [OSelect 0 [1;2]; OPhrase 0 [1;1;2] (Some 0) None; OPhrase 1 [1;2;1] None None] = true.
Proof. vm_compute. repeat split; reflexivity. Qed.

(* the theorems applied to the example: the hypotheses are all discharged, only the run itself is left *)
Example ex_history_free : forall ix cg outs p' q,
  index false 100 ex_docs = AOk ix -> pure_answer (init_pool ix cg) q <> None ->
  run (init_pool ix cg) (ex_ops ++ ex_ops2) = (outs, p') ->
  fst (step p' q) = fst (step (init_pool ix cg) q).
Proof.
  intros ix cg outs p' q E Hq Hrun.
  apply (indexed_history_free_initial ex_docs 100 ix cg (ex_ops ++ ex_ops2) outs p' q ex_wf E); try assumption.
  vm_compute. reflexivity.
Qed.

(* a query on the view of ex_ops2 (array 1, rows [4;2;0;0;3]) issued after the first 6 operations answers
   the same after the remaining 12 (which select from that view and so reset its handle) *)
Example ex_view_history_free : forall ix cg outs1 p1 outs2 p2,
  index false 100 ex_docs = AOk ix ->
  run (init_pool ix cg) (firstn 6 ex_ops2) = (outs1, p1) -> run p1 (skipn 6 ex_ops2) = (outs2, p2) ->
  fst (step p2 (OPhrase 1 [1;2] None None)) = fst (step p1 (OPhrase 1 [1;2] None None)).
Proof.
  intros ix cg outs1 p1 outs2 p2 E H1 H2.
  apply (indexed_history_free ex_docs 100 ix cg (firstn 6 ex_ops2) outs1 p1 (skipn 6 ex_ops2) outs2 p2 _ ex_wf E);
    try assumption.
  - vm_compute. reflexivity.
  - vm_compute. reflexivity.
  - destruct (indexed_reach ex_docs 100 ix cg (firstn 6 ex_ops2) outs1 p1 ex_wf E) as (_ & Hs & _); try assumption.
    { vm_compute. reflexivity. }
    unfold pure_answer. assert (Hn : nth_error (shape_of p1) 1 <> None).
    { rewrite Hs. vm_compute. discriminate. }
    unfold shape_of in Hn. rewrite nth_error_map in Hn.
    destruct (nth_error (arrays p1) 1); [discriminate|exfalso; apply Hn; reflexivity].
Qed.

Print Assumptions slice_idem_on_indexed.
Print Assumptions phrase_local_on_indexed.
Print Assumptions indexed_init_inv.
Print Assumptions indexed_step_pure.
Print Assumptions indexed_run_pure.
Print Assumptions indexed_history_free.
Print Assumptions indexed_history_free_initial.
Print Assumptions indexed_repeat_same.
Print Assumptions ex2_in_domain.
Print Assumptions ex_view_history_free.
