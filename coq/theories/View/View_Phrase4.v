(* C06 for EVERY phrase and EVERY position range: the phrase frequencies and the BM25 scores of a selection are
   the parent's answers re-indexed by the composed key.  View_Phrase.v proves this for phrases without an
   immediately repeated term by computing both sides (= occ); here no closed form is needed: by
   View_Phrase3.phrase_local_lists the bigram chain on the view's postings and on the parent's postings report the
   same count for every document the view shows, whatever strategy each run takes.

     phrase_parent_view            invariant form (view_inv / enc_inv): parent answer s with one entry per document and
                                   view answer = s gathered at the rows, or the same exception on both sides
     C06_phrase_commutes_any       v_phrase_freqs v ph lo hi = parent's, re-indexed   (any ph, any lo hi, both modes)
     C06_score_commutes_any        v_score_bm25 v ts = parent's scores, re-indexed     (any ts)
     parent_score_length_wide      the parent's score vector has one entry per document (any ts)
     C06_ranged_tf_commutes        v_termfreqs v t lo hi = parent's, re-indexed        (any range) *)
From Coq Require Import Sorted Permutation ZArith.
From SA Require Import Base.Prelude Kernels.Spec Kernels.Linear Kernels.Linear_Proofs Codec.Codec Codec.Codec_Spec
  Codec.Codec_Proofs Codec.Codec_Proofs2 Index.Index Index.Index_Spec Index.Index_Proofs Index.Index_Proofs2
  Index.Index_Proofs3 Query.Phrase Query.Phrase_Spec Query.Phrase_Proofs Query.Phrase_Proofs2 Query.Phrase_Proofs3
  Query.Phrase_Final Query.Phrase_Repeats Query.Range Query.Range_Spec Query.Range_Proofs Score.BM25 View.View View.View_Spec
  View.View_Proofs View.View_Phrase View.Purity View.Purity_Proofs View.View_Phrase2 View.Purity_Gen View.View_Phrase3.
Open Scope N_scope.

(* ================= 1. phrase frequencies of a view = the parent's, gathered at the rows ================= *)
Definition gather_at (s : list N) (R : list N) : list N := map (fun r => nth (N.to_nat r) s 0) R.

Lemma gather_at_zeros n R : gather_at (repeat 0 n) R = repeat 0 (length R).
Proof.
  unfold gather_at. induction R as [|r R IH]; [reflexivity|]. cbn [map length repeat]. rewrite IH. f_equal.
  destruct (Nat.lt_ge_cases (N.to_nat r) n) as [H|H].
  - apply nth_repeat.
  - apply nth_overflow. rewrite repeat_length. exact H.
Qed.

Section Inv3.
Variables (docs : list (list N)) (ix : sindex).
Hypothesis Hwf : wf_docs docs.
Hypothesis Hok : index_ok docs ix.

Lemma encQ_sel lo hi Q t w : In w (encQ docs lo hi Q t) -> Q (key w) = true /\ key w < N.of_nat (length docs).
Proof.
  intro H. split; [|exact (encQ_key docs Hwf lo hi Q t w H)].
  unfold encQ, Rf in H. apply filter_In in H. destruct H as [H _].
  destruct (fpairs_wf docs Hwf Q t) as [S B]. destruct (encode_word_pair _ w S B H) as (p & Hin).
  apply fpairs_in in Hin. exact (proj2 Hin).
Qed.

(* the parent's answer s has one entry per document and the view's answer is s gathered at the view's rows;
   or both raise the same exception (a phrase of fewer than two known terms, an unaligned range) *)
Theorem phrase_parent_view avoid v R ph lo hi : view_inv docs ix v R -> enc_inv docs v R ->
  (exists s, v_phrase_freqs (of_index ix avoid) ph lo hi = AOk s /\ length s = length docs /\
             v_phrase_freqs v ph lo hi = AOk (gather_at s R)) \/
  (exists e, v_phrase_freqs (of_index ix avoid) ph lo hi = AExc e /\ v_phrase_freqs v ph lo hi = AExc e).
Proof.
  intros Hinv Henc. pose proof Hinv as [Hrows Hbound Hl Hterms' Hroot Htot Hn Hmax Hh].
  pose proof Hok as (_ & Ha & Hterms & Hlens).
  assert (HL : length (ix_lens ix) = length docs) by (rewrite Hlens; apply map_length).
  unfold v_phrase_freqs.
  assert (EK : forallb (known_a v) ph = forallb (known ix) ph).
  { clear - Hinv. induction ph as [|t r IH]; [reflexivity|]. cbn [forallb].
    now rewrite IH, (known_a_eq docs ix v R t Hinv). }
  assert (EK0 : forallb (known_a (of_index ix avoid)) ph = forallb (known ix) ph) by reflexivity.
  rewrite EK, EK0. destruct (forallb (known ix) ph) eqn:K; cbn [negb].
  2:{ left. exists (repeat 0 (nrows (of_index ix avoid))). split; [reflexivity|].
      unfold nrows. cbn [of_index a_rows]. rewrite map_length, seq_length, repeat_length. split; [exact HL|].
      rewrite gather_at_zeros, Hrows. reflexivity. }
  assert (Hall : forall t, In t ph -> In t (concat docs)).
  { intros t Hin. rewrite forallb_forall in K. apply (known_iff docs ix t Hterms). apply K. exact Hin. }
  destruct (Nat.ltb (length ph) 2) eqn:El; [right; exists ValueError; split; reflexivity|].
  apply Nat.ltb_ge in El.
  destruct Henc as (Q & HQ & Henc & Hmaxd & Hfresh).
  set (h1 := HBase (ix_posts ix)).
  assert (Hin1 : forall t, In t (concat docs) -> get_enc h1 t = AOk (encode_spec (fpairs docs (fun _ => true) t))).
  { intros t Ht. unfold h1. cbn [get_enc]. unfold lookup_posts. rewrite (root_sel docs ix Hok t Ht). reflexivity. }
  assert (Hout1 : forall t, ~ In t (concat docs) -> get_enc h1 t = AExc KeyError).
  { intros t Ht. unfold h1. cbn [get_enc]. unfold lookup_posts. rewrite (Ha t Ht). reflexivity. }
  change (p_handle (a_posns (of_index ix avoid))) with h1.
  destruct ph as [|t0 r0] eqn:Eph; [cbn [length] in El; lia|]. rewrite <- Eph in *.
  destruct (ranged_cases lo hi) as [Hr|Hr].
  2:{ (* unaligned range: ValueError at the first term, through either handle *)
      right. exists ValueError. rewrite Eph. rewrite !get_all_enc_unfold, (Hin1 t0), (Henc t0)
        by (apply Hall; rewrite Eph; now left). cbn [abind]. rewrite !Hr. split; reflexivity. }
  rewrite (gae_ok (concat docs) h1 _ lo hi Hin1 Hr ph Hall).
  rewrite (gae_ok (concat docs) (p_handle (a_posns v)) _ lo hi Henc Hr ph Hall).
  fold (encQ docs lo hi (fun _ => true)). fold (encQ docs lo hi Q). cbn [abind].
  destruct (phrase_local_lists (encQ docs lo hi (fun _ => true)) (encQ docs lo hi Q) Q (docN docs)) with (ph := ph)
    as (ra & rb & Ea & Eb & [Sa _] & [Sb _] & Ka & Kb & Heq).
  { intro t. apply encQ_canonical. exact Hwf. }
  { intro t. apply encQ_canonical. exact Hwf. }
  { intros t d Hd. apply doc_words_encQ; [exact Hwf|reflexivity|exact Hd]. }
  { intros t d p. apply encQ_genuine. exact Hwf. }
  { exact El. }
  rewrite Ea, Eb. cbn [abind].
  assert (Hne : docs <> []).
  { intro E0. specialize (Hall t0 ltac:(rewrite Eph; now left)). rewrite E0 in Hall. exact Hall. }
  cbn [of_index a_posns p_max_doc_id a_subset].
  assert (Esz : N.to_nat (N.of_nat (length (ix_lens ix)) - 1 + 1) = length docs).
  { rewrite HL. destruct docs; [congruence|]. cbn [length]. lia. }
  rewrite Esz.
  assert (Kba : Forall (fun iv : N * N => fst iv < N.of_nat (length docs)) ra).
  { apply Forall_forall. intros iv Hiv. destruct (Ka (fst iv) (in_map fst _ _ Hiv)) as (t & w & Hw & <-).
    apply (encQ_sel lo hi _ t w Hw). }
  assert (Kbb : Forall (fun iv : N * N => fst iv < N.of_nat (N.to_nat (p_max_doc_id (a_posns v) + 1))) rb).
  { apply Forall_forall. intros iv Hiv. destruct (Kb (fst iv) (in_map fst _ _ Hiv)) as (t & w & Hw & <-).
    destruct (encQ_sel lo hi Q t w Hw) as [H1 H2]. pose proof (Hmaxd _ H2 H1). lia. }
  destruct (store_zeros ra (length docs) (ss_lt_nodup' _ Sa) Kba) as (da & Esa & La & Na).
  destruct (store_zeros rb _ (ss_lt_nodup' _ Sb) Kbb) as (db & Esb & Lb & Nb).
  rewrite Esa, Esb. cbn [lift abind]. left. exists da. split; [reflexivity|]. split; [exact La|].
  assert (Hrow : forall r, r < N.of_nat (length docs) -> r <= p_max_doc_id (a_posns v) -> Q r = true ->
                 nth (N.to_nat r) db 0 = nth (N.to_nat r) da 0).
  { intros r H1 H2 H3. rewrite Na, Nb by lia. rewrite N2Nat.id. symmetry. apply Heq. exact H3. }
  destruct (a_subset v) eqn:Esub.
  - rewrite Hrows. f_equal. unfold View.gather, gather_at. apply map_ext_in. intros r Hr'.
    rewrite Forall_forall in Hbound, Hmax, HQ. apply Hrow; [apply Hbound|apply Hmax|apply HQ]; exact Hr'.
  - destruct Hh as [(_ & HR0 & _)|(Esub' & _)]; [|congruence]. specialize (Hfresh eq_refl).
    f_equal. rewrite HR0. unfold gather_at, rows0. rewrite (gather_rows0 0 da (length docs)) by (symmetry; exact La).
    apply (nth_ext _ _ 0 0).
    + rewrite Lb, La, Hfresh. destruct docs; [congruence|]. cbn [length]. lia.
    + intros k Hk. rewrite Lb, Hfresh in Hk.
      assert (Hk' : (k < length docs)%nat) by (destruct docs; [congruence|]; cbn [length] in *; lia).
      rewrite <- (Nat2N.id k). apply Hrow; [lia|rewrite Hfresh; lia|].
      rewrite Forall_forall in HQ. apply HQ. rewrite HR0. apply rows0_in. lia.
Qed.
End Inv3.

(* ================= 2. C06, phrase clause, every phrase and every position range ================= *)
Theorem C06_phrase_parent_view : forall docs bs ix avoid keys v ph lo hi,
  wf_docs docs -> index false bs docs = AOk ix -> valid_keys (length docs) keys ->
  select_chain (of_index ix avoid) keys = AOk v ->
  (exists s, v_phrase_freqs (of_index ix avoid) ph lo hi = AOk s /\ length s = length docs /\
             v_phrase_freqs v ph lo hi = AOk (reindex 0 s docs keys)) \/
  (exists e, v_phrase_freqs (of_index ix avoid) ph lo hi = AExc e /\ v_phrase_freqs v ph lo hi = AExc e).
Proof.
  intros docs bs ix avoid keys v ph lo hi Hwf E Hv Ev.
  pose proof (index_ok_of docs bs ix Hwf E) as Hok.
  destruct (C06_invs docs bs ix avoid keys v Hwf E Hv Ev) as (Hinv & Henc).
  exact (phrase_parent_view docs ix Hwf Hok avoid v _ ph lo hi Hinv Henc).
Qed.

(* the phrase frequencies of a selection are the parent's phrase frequencies re-indexed by the composed key:
   EVERY term list (immediate repetitions included; fewer than two terms raises on both sides), EVERY
   position range (an unaligned one raises on both sides), both selection modes, chains of any depth *)
Theorem C06_phrase_commutes_any : forall docs bs ix avoid keys v ph lo hi,
  wf_docs docs -> index false bs docs = AOk ix -> valid_keys (length docs) keys ->
  select_chain (of_index ix avoid) keys = AOk v ->
  v_phrase_freqs v ph lo hi =
    ado s <- v_phrase_freqs (of_index ix avoid) ph lo hi;
    AOk (map (fun r => nth (N.to_nat r) s 0) (compose_rows (rows0 docs) keys)).
Proof.
  intros docs bs ix avoid keys v ph lo hi Hwf E Hv Ev.
  destruct (C06_phrase_parent_view docs bs ix avoid keys v ph lo hi Hwf E Hv Ev)
    as [(s & Ep & _ & Evw)|(e & Ep & Evw)]; rewrite Ep, Evw; reflexivity.
Qed.

(* ================= 3. scores ================= *)
Lemma tf_vector_parent_view docs bs ix avoid keys v ts :
  wf_docs docs -> index false bs docs = AOk ix -> valid_keys (length docs) keys ->
  select_chain (of_index ix avoid) keys = AOk v ->
  (exists s, v_tf_vector (of_index ix avoid) ts None None = AOk s /\ length s = length docs /\
             v_tf_vector v ts None None = AOk (reindex 0 s docs keys)) \/
  (exists e, v_tf_vector (of_index ix avoid) ts None None = AExc e /\ v_tf_vector v ts None None = AExc e).
Proof.
  intros Hwf E Hv Ev.
  destruct ts as [|t [|t2 rest]].
  - exact (C06_phrase_parent_view docs bs ix avoid keys v [] None None Hwf E Hv Ev).
  - left. exists (tf_spec docs t). cbn [v_tf_vector].
    assert (Ev0 : select_chain (of_index ix avoid) [] = AOk (of_index ix avoid)) by reflexivity.
    destruct (C06_commute docs bs ix avoid [] _ Hwf E I Ev0) as (_ & H0 & _).
    destruct (C06_commute docs bs ix avoid keys v Hwf E Hv Ev) as (_ & H1 & _).
    rewrite H0, H1, view_docs_nil, tf_reindex. split; [reflexivity|]. split; [apply tf_spec_length|reflexivity].
  - exact (C06_phrase_parent_view docs bs ix avoid keys v (t :: t2 :: rest) None None Hwf E Hv Ev).
Qed.

(* scoring a selection = re-indexing the parent's scores, for EVERY term list *)
Theorem C06_score_commutes_any : forall docs bs ix avoid keys v ts idf k1 b,
  wf_docs docs -> index false bs docs = AOk ix -> valid_keys (length docs) keys ->
  select_chain (of_index ix avoid) keys = AOk v ->
  v_score_bm25 v ts idf k1 b =
    ado s <- v_score_bm25 (of_index ix avoid) ts idf k1 b;
    AOk (map (fun r => nth (N.to_nat r) s 0%Z) (compose_rows (rows0 docs) keys)).
Proof.
  intros docs bs ix avoid keys v ts idf k1 b Hwf E Hv Ev.
  pose proof (index_ok_of docs bs ix Hwf E) as Hok.
  destruct (C06_invs docs bs ix avoid keys v Hwf E Hv Ev) as (Hinv & _).
  assert (Ev0 : select_chain (of_index ix avoid) [] = AOk (of_index ix avoid)) by reflexivity.
  destruct (C06_invs docs bs ix avoid [] _ Hwf E I Ev0) as (Hinv0 & _). cbn [compose_rows] in Hinv0.
  destruct (C06_commute docs bs ix avoid keys v Hwf E Hv Ev) as (_ & _ & _ & Hl & _ & Htot & Hn).
  destruct (C06_commute docs bs ix avoid [] _ Hwf E I Ev0) as (_ & _ & _ & Hl0 & _ & Htot0 & Hn0).
  rewrite view_docs_nil in Hl0.
  unfold v_score_bm25, v_score_args.
  rewrite (all_dfs_inv docs ix v _ Hwf Hok Hinv), (all_dfs_inv docs ix _ _ Hwf Hok Hinv0). cbn [abind].
  destruct (tf_vector_parent_view docs bs ix avoid keys v ts Hwf E Hv Ev) as [(s & Ep & Ls & Evw)|(e & Ep & Evw)];
    rewrite Ep, Evw; cbn [abind]; [|reflexivity].
  rewrite Hl0, Htot0, Hn0. rewrite Hl, Htot, Hn, lens_reindex. f_equal. unfold reindex.
  apply score_bits_gather.
  - rewrite Ls, lens_spec_length. reflexivity.
  - rewrite Ls. exact (vi_bound _ _ _ _ Hinv).
Qed.

(* the parent's score vector has one entry per document, whatever the terms *)
Lemma parent_score_length_wide docs bs ix avoid ts idf k1 b s :
  wf_docs docs -> index false bs docs = AOk ix ->
  v_score_bm25 (of_index ix avoid) ts idf k1 b = AOk s -> length s = length docs.
Proof.
  intros Hwf E Hs. pose proof (index_ok_of docs bs ix Hwf E) as Hok.
  assert (Ev0 : select_chain (of_index ix avoid) [] = AOk (of_index ix avoid)) by reflexivity.
  destruct (C06_invs docs bs ix avoid [] _ Hwf E I Ev0) as (Hinv0 & _). cbn [compose_rows] in Hinv0.
  destruct (C06_commute docs bs ix avoid [] _ Hwf E I Ev0) as (_ & _ & _ & Hl0 & _ & _).
  rewrite view_docs_nil in Hl0.
  unfold v_score_bm25, v_score_args in Hs. rewrite (all_dfs_inv docs ix _ _ Hwf Hok Hinv0) in Hs. cbn [abind] in Hs.
  destruct (tf_vector_parent_view docs bs ix avoid [] _ ts Hwf E I Ev0) as [(tf & Ep & Ls & _)|(e & Ep & _)];
    rewrite Ep in Hs; cbn [abind] in Hs; [|discriminate].
  inversion Hs; subst s. rewrite score_bits_length; rewrite !map_length; [exact Ls|].
  rewrite Ls. transitivity (length (lens_spec docs)); [symmetry; apply lens_spec_length|].
  f_equal. symmetry. exact Hl0.
Qed.

(* ================= 4. term frequencies with a position range ================= *)
(* ---- the dense value of a key = the number of pairs with that key ---- *)
Lemma gbk_nil ps : group_by_key ps = [] -> ps = [].
Proof.
  destruct ps as [|[k p] t]; [reflexivity|]. intro H. destruct (group_by_key_head k p t) as (l & r & E).
  rewrite E in H. discriminate.
Qed.

Lemma gbk_sorted : forall ps, sorted2 ps -> StronglySorted N.lt (map fst (group_by_key ps)).
Proof.
  induction ps as [|[k p] t IH]; intro Hs; [constructor|]. pose proof Hs as [Hhd Ht]. specialize (IH Ht).
  cbn [group_by_key]. destruct (group_by_key t) as [|[k' l] rest] eqn:G; [repeat constructor|].
  assert (Hk : k <= k').
  { destruct t as [|[k2 p2] t2]; [discriminate G|]. destruct (group_by_key_head k2 p2 t2) as (l2 & r2 & E2).
    rewrite E2 in G. inversion G; subst. unfold lt2 in Hhd. cbn [fst snd] in Hhd. lia. }
  cbn [map fst] in IH. apply StronglySorted_inv in IH. destruct IH as [IH1 IH2].
  destruct (N.eqb_spec k k') as [<-|Hne]; cbn [map fst].
  - constructor; assumption.
  - constructor; [constructor; assumption|]. constructor; [lia|].
    eapply Forall_impl; [|exact IH2]. cbn beta. intros; lia.
Qed.

Lemma dval_counts : forall ps, sorted2 ps -> forall r,
  dval (counts_spec ps) r = N.of_nat (length (filter (fun kp : N * N => fst kp =? r) ps)).
Proof.
  induction ps as [|[k p] t IH]; intros Hs r; [reflexivity|]. pose proof Hs as [Hhd Ht].
  pose proof (gbk_sorted _ Hs) as Hss. specialize (IH Ht r). unfold counts_spec in *.
  cbn [group_by_key] in *. cbn [filter fst].
  destruct (group_by_key t) as [|[k' l] rest] eqn:G.
  - apply gbk_nil in G. subst t. cbn [map fst snd length filter].
    destruct (N.eqb_spec k r) as [->|Hne].
    + rewrite dval_cons_same by constructor. reflexivity.
    + rewrite dval_cons_other by exact Hne. reflexivity.
  - destruct (N.eqb_spec k k') as [<-|Hkk].
    + cbn [map fst snd] in *. apply StronglySorted_inv in Hss. destruct Hss as [_ Hf].
      assert (Hf' : Forall (fun g : N * N => fst g <> k) (map (fun kl : N * list N => (fst kl, N.of_nat (length (snd kl)))) rest)).
      { rewrite Forall_map. rewrite Forall_map in Hf. eapply Forall_impl; [|exact Hf]. cbn [fst]. intros; lia. }
      destruct (N.eqb_spec k r) as [->|Hne].
      * rewrite dval_cons_same in IH |- * by exact Hf'. cbn [length]. rewrite !Nat2N.inj_succ, IH. reflexivity.
      * rewrite dval_cons_other in IH |- * by exact Hne. exact IH.
    + cbn [map fst snd] in *. apply StronglySorted_inv in Hss. destruct Hss as [_ Hf].
      destruct (N.eqb_spec k r) as [->|Hne].
      * rewrite dval_cons_same.
        2:{ apply Forall_forall. intros g Hg.
            change ((k', N.of_nat (length l)) :: map (fun kl : N * list N => (fst kl, N.of_nat (length (snd kl)))) rest)
              with (map (fun kl : N * list N => (fst kl, N.of_nat (length (snd kl)))) ((k', l) :: rest)) in Hg.
            apply in_map_iff in Hg. destruct Hg as (kl & <- & Hkl). cbn [fst].
            rewrite Forall_forall in Hf. specialize (Hf (fst kl)).
            assert (Hin : In (fst kl) (k' :: map fst rest)).
            { change (k' :: map fst rest) with (map fst ((k', l) :: rest)). apply in_map. exact Hkl. }
            specialize (Hf Hin). lia. }
        assert (E0 : filter (fun kp : N * N => fst kp =? r) t = []).
        { rewrite <- (Phrase_Proofs2.filter_false t). apply filter_ext_in. intros kp Hkp.
          apply N.eqb_neq. intro E.
          destruct t as [|[k2 p2] t2]; [destruct Hkp|]. destruct (group_by_key_head k2 p2 t2) as (l2 & r2 & E2).
          rewrite E2 in G. inversion G; subst k2 l2 r2. unfold lt2 in Hhd. cbn [fst snd] in Hhd.
          pose proof (sorted2_lb _ _ Ht) as Hlb2. rewrite Forall_forall in Hlb2.
          destruct Hkp as [<-|Hkp]; [cbn [fst] in E; lia|]. specialize (Hlb2 kp Hkp). cbn [fst] in Hlb2. lia. }
        rewrite E0. reflexivity.
      * rewrite dval_cons_other by exact Hne. exact IH.
Qed.

(* ---- the range filter on encoded pairs ---- *)
Definition ppred (lo hi : option N) : N * N -> bool :=
  match lo, hi with None, None => fun _ => true | _, _ => fun kp => bq (lo0 lo / 18) (hi0 hi / 18) (snd kp / 18) end.

Lemma Rf_enc lo hi ps : sorted2 ps -> bounded ps -> Rf lo hi (encode_spec ps) = encode_spec (filter (ppred lo hi) ps).
Proof.
  intros S B. unfold Rf, rpred, ppred.
  destruct lo as [l|], hi as [h|]; try exact (filter_encode_spec_b _ ps S B).
  rewrite !Phrase_Proofs2.filter_true. reflexivity.
Qed.

Lemma range_api lo hi s : api_of_range (slice_range_w s lo hi) = ranged lo hi s.
Proof. unfold ranged. destruct lo, hi; reflexivity. Qed.

Lemma dense_nth kc size r : r < size ->
  nth (N.to_nat r) (as_dense_spec (map fst kc) (map snd kc) size) 0 = dval kc r.
Proof.
  intro H. rewrite as_dense_dval. rewrite nth_map_seq by lia. rewrite N2Nat.id. reflexivity.
Qed.

Lemma dense_length kc size : length (as_dense_spec (map fst kc) (map snd kc) size) = N.to_nat size.
Proof. unfold as_dense_spec. rewrite !map_length, seq_length. reflexivity. Qed.

Section Inv4.
Variables (docs : list (list N)) (ix : sindex).
Hypothesis Hwf : wf_docs docs.
Hypothesis Hok : index_ok docs ix.

(* counting, scattering: the dense value of row r of the (range-filtered) restriction to Q *)
Lemma counts_dense lo hi Q t size :
  (forall k, k < N.of_nat (length docs) -> Q k = true -> k < size) ->
  exists kc dense,
    lift (num_values_per_key (Rf lo hi (encode_spec (fpairs docs Q t)))) = AOk kc /\
    unpy (as_dense (map fst kc) (map snd kc) size) = AOk dense /\
    length dense = N.to_nat size /\
    forall r, r < size -> Q r = true ->
      nth (N.to_nat r) dense 0 =
      N.of_nat (length (filter (fun kp : N * N => fst kp =? r) (filter (ppred lo hi) (tp_from 0 docs t)))).
Proof.
  intro Hsz. destruct (fpairs_wf docs Hwf Q t) as [S B].
  rewrite (Rf_enc lo hi _ S B).
  set (ps := filter (ppred lo hi) (fpairs docs Q t)).
  assert (S' : sorted2 ps) by (apply sorted2_filter; exact S).
  assert (B' : bounded ps) by (apply bounded_filter; exact B).
  rewrite (counts_correct ps S' B'). cbn [lift abind]. exists (counts_spec ps).
  rewrite as_dense_correct.
  - cbn [unpy lift]. eexists. split; [reflexivity|]. split; [reflexivity|]. split; [apply dense_length|].
    intros r Hr HQ. rewrite dense_nth by exact Hr. rewrite (dval_counts ps S' r). f_equal. f_equal.
    unfold ps, fpairs. rewrite !filter_filter'. apply filter_ext. intro kp. unfold keyf.
    destruct (N.eqb_spec (fst kp) r) as [->|]; [rewrite HQ, andb_true_r; reflexivity|reflexivity].
  - rewrite !map_length. reflexivity.
  - unfold counts_spec. rewrite map_map. cbn [fst]. apply Forall_map. apply Forall_forall. intros g Hg.
    assert (Hk : exists p, In (fst g, p) ps).
    { clear - Hg. revert g Hg. induction ps as [|[k p] t' IH]; intros g Hg; [destruct Hg|].
      cbn [group_by_key] in Hg. destruct (group_by_key t') as [|[k' l] rest] eqn:G.
      - destruct Hg as [<-|[]]. exists p. now left.
      - destruct (k =? k') eqn:Ek.
        + destruct Hg as [<-|Hg]; [exists p; now left|].
          destruct (IH g (or_intror Hg)) as (p' & Hp'). exists p'. now right.
        + destruct Hg as [<-|Hg]; [exists p; now left|].
          destruct (IH g Hg) as (p' & Hp'). exists p'. now right. }
    destruct Hk as (p & Hp). unfold ps in Hp. apply filter_In in Hp. destruct Hp as [Hp _].
    apply fpairs_in in Hp. destruct Hp as [Hp HQ]. cbn [fst] in HQ.
    pose proof (tp_keys t docs 0) as TK. rewrite Forall_forall in TK. specialize (TK _ Hp). cbn [fst] in TK.
    apply Hsz; [lia|exact HQ].
Qed.

Theorem tf_parent_view avoid v R t lo hi : view_inv docs ix v R ->
  (exists s, v_termfreqs (of_index ix avoid) t lo hi = AOk s /\ length s = length docs /\
             v_termfreqs v t lo hi = AOk (gather_at s R)) \/
  (exists e, v_termfreqs (of_index ix avoid) t lo hi = AExc e /\ v_termfreqs v t lo hi = AExc e).
Proof.
  intro Hinv. pose proof Hinv as [Hrows Hbound Hl Hterms' Hroot Htot Hn Hmax Hh].
  pose proof Hok as (_ & Ha & Hterms & Hlens).
  assert (HL : length (ix_lens ix) = length docs) by (rewrite Hlens; apply map_length).
  assert (Hnr : nrows (of_index ix avoid) = length docs).
  { unfold nrows. cbn [of_index a_rows]. rewrite map_length, seq_length. exact HL. }
  unfold v_termfreqs. rewrite (known_a_eq docs ix v R t Hinv).
  change (known_a (of_index ix avoid) t) with (known ix t).
  destruct (in_dec N.eq_dec t (concat docs)) as [Hi|Hni].
  2:{ rewrite (known_false docs ix t Hterms Hni). cbn [negb]. left. exists (repeat 0 (nrows (of_index ix avoid))).
      split; [reflexivity|]. split; [rewrite repeat_length; exact Hnr|].
      rewrite gather_at_zeros. unfold nrows. rewrite Hrows. reflexivity. }
  rewrite (known_true docs ix t Hterms Hi). cbn [negb].
  cbn [of_index a_subset a_posns p_handle get_enc].
  assert (El : lookup_posts t (ix_posts ix) = AOk (encode_spec (fpairs docs (fun _ => true) t))).
  { unfold lookup_posts. rewrite (root_sel docs ix Hok t Hi). reflexivity. }
  rewrite El. cbn [abind].
  fold (ranged lo hi (encode_spec (fpairs docs (fun _ => true) t))).
  (* the parent's dense vector *)
  destruct (counts_dense lo hi (fun _ => true) t (N.of_nat (nrows (of_index ix avoid)))) as (kp & dp & Ekp & Edp & Ldp & Vdp).
  { intros k Hk _. rewrite Hnr. exact Hk. }
  destruct (ranged_cases lo hi) as [Hr|Hr].
  2:{ right. exists ValueError. rewrite Hr. split; [reflexivity|].
      destruct (get_enc_inv docs ix Hwf Hok v R Hinv) as (Q & HQ & Henc). rewrite (Henc t Hi). cbn [abind].
      destruct (a_subset v).
      - rewrite Hrows, (slice_fpairs docs Hwf Q t (np_unique R) (np_unique_sorted R) (np_unique_forall _ _ Hbound)).
        cbn [lift abind]. rewrite range_api, Hr. reflexivity.
      - fold (ranged lo hi (encode_spec (fpairs docs Q t))). rewrite Hr. reflexivity. }
  rewrite Hr. cbn [abind]. rewrite Ekp. cbn [abind]. rewrite Edp. left. exists dp. split; [reflexivity|].
  split; [rewrite Ldp, Nat2N.id; exact Hnr|].
  destruct (get_enc_inv docs ix Hwf Hok v R Hinv) as (Q & HQ & Henc). rewrite (Henc t Hi). cbn [abind].
  destruct (a_subset v) eqn:Esub.
  - rewrite Hrows, (slice_fpairs docs Hwf Q t (np_unique R) (np_unique_sorted R) (np_unique_forall _ _ Hbound)).
    cbn [lift abind]. rewrite range_api, Hr. cbn [abind].
    set (Q' := fun k => mem_n k (np_unique R) && Q k).
    assert (HQ' : forall r, In r R -> Q' r = true).
    { intros r Hr'. unfold Q'. rewrite Forall_forall in HQ. rewrite np_unique_mem, (proj2 (mem_n_in r R) Hr'), (HQ r Hr'). reflexivity. }
    destruct (counts_dense lo hi Q' t (p_max_doc_id (a_posns v) + 1)) as (kv & dv & Ekv & Edv & Ldv & Vdv).
    { intros k _ Hk. unfold Q' in Hk. apply andb_prop in Hk. destruct Hk as [Hk _]. rewrite np_unique_mem in Hk.
      apply mem_n_in in Hk. rewrite Forall_forall in Hmax. specialize (Hmax _ Hk). lia. }
    rewrite Ekv. cbn [abind]. rewrite Edv. cbn [abind]. f_equal. unfold View.gather, gather_at. apply map_ext_in. intros r Hr'.
    rewrite Forall_forall in Hbound, Hmax.
    rewrite Vdv by (try apply HQ'; try exact Hr'; specialize (Hmax r Hr'); lia).
    rewrite Vdp by (try reflexivity; rewrite Hnr; apply Hbound; exact Hr'). reflexivity.
  - destruct Hh as [(_ & HR0 & Eh)|(Esub' & _)]; [|congruence].
    fold (ranged lo hi (encode_spec (fpairs docs Q t))). rewrite Hr. cbn [abind].
    assert (EQ : fpairs docs Q t = fpairs docs (fun _ => true) t).
    { apply fpairs_ext. intros r Hr'. rewrite Forall_forall in HQ. apply HQ. rewrite HR0. apply rows0_in. exact Hr'. }
    assert (Enr : nrows v = nrows (of_index ix avoid)).
    { unfold nrows. rewrite Hrows, HR0, rows0_length. cbn [of_index a_rows]. rewrite map_length, seq_length. symmetry. exact HL. }
    rewrite EQ, Enr, Ekp. cbn [abind]. rewrite Edp. f_equal. rewrite HR0. unfold gather_at, rows0. symmetry. apply gather_rows0.
    rewrite Ldp, Nat2N.id. symmetry. exact Hnr.
Qed.
End Inv4.

(* C06 for range-restricted term frequencies: any term, any position range (an unaligned one raises on both
   sides), both selection modes, chains of any depth *)
Theorem C06_ranged_tf_commutes : forall docs bs ix avoid keys v t lo hi,
  wf_docs docs -> index false bs docs = AOk ix -> valid_keys (length docs) keys ->
  select_chain (of_index ix avoid) keys = AOk v ->
  v_termfreqs v t lo hi =
    ado s <- v_termfreqs (of_index ix avoid) t lo hi;
    AOk (map (fun r => nth (N.to_nat r) s 0) (compose_rows (rows0 docs) keys)).
Proof.
  intros docs bs ix avoid keys v t lo hi Hwf E Hv Ev.
  pose proof (index_ok_of docs bs ix Hwf E) as Hok.
  destruct (C06_invs docs bs ix avoid keys v Hwf E Hv Ev) as (Hinv & _).
  destruct (tf_parent_view docs ix Hwf Hok avoid v _ t lo hi Hinv) as [(s & Ep & _ & Evw)|(e & Ep & Evw)];
    rewrite Ep, Evw; reflexivity.
Qed.

(* ================= 5. a concrete chain of selections ================= *)
(* a view of a view (unsorted, repeated rows) of a corpus with runs inside a word, two runs in one word and a run
   across the word boundary 17|18; repeated-term phrases, a position range, both selection modes *)
Definition c06_docs : list (list N) :=
  [[1;1;1;1;1]; [1;1;1;2;1;1;1]; [2;1;1]; [1;2;1]; repeat 2 17 ++ [1;1;1;2]].
Definition c06_keys : list (list N) := [[4;1;1;0;3]; [2;0;3]].
Definition c06_run (avoid : bool) :=
  match index false 100 c06_docs with
  | AOk ix => match select_chain (of_index ix avoid) c06_keys with
              | AOk v => Some (a_rows v, v_phrase_freqs (of_index ix avoid) [1;1] None None, v_phrase_freqs v [1;1] None None,
                               v_phrase_freqs v [1;1;1] None None, v_phrase_freqs v [1;1] (Some 0) (Some 17),
                               v_termfreqs v 1 (Some 18) None)
              | _ => None end
  | _ => None end.
Example C06_any_example : forall avoid,
  c06_run avoid = Some ([1;4;0], AOk [2;3;1;0;2], AOk [3;2;2], AOk [2;1;2], AOk [3;0;2], AOk [0;2;0]).
Proof. intros [|]; vm_compute; reflexivity. Qed.

Print Assumptions phrase_parent_view.
Print Assumptions C06_phrase_commutes_any.
Print Assumptions C06_score_commutes_any.
Print Assumptions parent_score_length_wide.
Print Assumptions C06_ranged_tf_commutes.
